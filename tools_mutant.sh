#!/bin/sh
# usage: tools_mutant.sh <worktree-id> <PROP> [extra check args]   (developer helper)
# runs a check against the scratch worktree /tmp/mut/<id> (seeded change applied there), never touching /repo
ID=$1; PROP=$2; shift 2
cd /verif && VERIF_REPO=/tmp/mut/$ID ./check $PROP --no-evidence "$@"; rc=$?
echo "MUTANT-RESULT prop=$PROP id=$ID exit=$rc"
