//! C13: reordering statistics always yield a valid, frequency-ordered mapping.
use crate::util::*;
use crate::world::*;
use vibrato::dictionary::Dictionary;
use vibrato::tokenizer::worker::Worker;
use vibrato::tokenizer::Tokenizer;
use vibrato::verif_hooks::*;

/// a non-square connector: 2 right ids, 3 left ids
const S13: Spec = Spec { sys: L_A_AB, user: None, cats: CATS_MIX, unk_mult: &[1, 1, 1], nr: 2, nl: 3 };

/// Independent recount from the lattice dump: one connection-cost evaluation per (node, node
/// ending at its start boundary), plus one per node ending at the boundary EOS connects from.
#[cfg(kani)]
fn recount(w: &Worker, n: usize, lid: &mut [usize; 3], rid: &mut [usize; 3]) {
    let lat = w.verif_lattice();
    let ends = lat.verif_ends();
    for e in 1..=n {
        for j in 0..4 {
            if j < ends[e].len() {
                let r = &ends[e][j];
                for s in 0..=n {
                    if s == r.start_node {
                        for i in 0..4 {
                            if i < ends[s].len() {
                                bump(lid, r.left_id);
                                bump(rid, ends[s][i].right_id);
                            }
                        }
                    }
                }
            }
        }
    }
    let eos = lat.verif_eos().unwrap();
    for s in 0..=n {
        if s == eos.start_node {
            for i in 0..4 {
                if i < ends[s].len() {
                    bump(lid, 0);
                    bump(rid, ends[s][i].right_id);
                }
            }
        }
    }
}

fn bump(a: &mut [usize; 3], id: u16) {
    for k in 0..3 {
        if id as usize == k {
            a[k] += 1;
        }
    }
}

#[cfg(kani)]
fn counts_of(w: &Worker, lid: &mut [usize; 3], rid: &mut [usize; 3]) {
    let c = w.verif_counter().unwrap();
    assert!(c.verif_lid_count().len() == S13.nl, "one counter per left id");
    assert!(c.verif_rid_count().len() == S13.nr, "one counter per right id");
    for k in 0..S13.nl {
        lid[k] = c.verif_lid_count()[k];
    }
    for k in 0..S13.nr {
        rid[k] = c.verif_rid_count()[k];
    }
}

#[cfg(kani)]
fn counts_one_sentence(text: &'static str, n: usize, ignore_space: bool) {
    let tok_owned = tokenizer_of(&S13, ignore_space, 0);
    let tok = &tok_owned;
    let mut w = tok.new_worker();
    w.init_connid_counter();
    w.reset_sentence(text);
    if ignore_space {
        w.verif_tokenize_with(matrix_of(tok.dictionary().verif_connector()));
    } else {
        w.tokenize();
    }
    w.update_connid_counts();
    let (mut lid, mut rid) = ([0usize; 3], [0usize; 3]);
    counts_of(&w, &mut lid, &mut rid);
    let (mut lref, mut rref) = ([0usize; 3], [0usize; 3]);
    recount(&w, n, &mut lref, &mut rref);
    for k in 0..3 {
        assert!(lid[k] == lref[k], "left-id frequency differs from the number of connection-cost evaluations");
        assert!(rid[k] == rref[k], "right-id frequency differs from the number of connection-cost evaluations");
    }
    kani::cover!(lid[0] >= 1 && lid[1] >= 1);
    core::mem::forget(w);
    core::mem::forget(tok_owned);
}

//@ c13_counts_ab {"desc":"after tokenizing \"ab\" the per-id counts equal an independent recount of connection-cost evaluations over the lattice, for all id assignments","bounds":"N=2; dictionary S13 (words {a,ab}, 3 unk entries, 2 right x 3 left ids)","symbolic":"all ids and costs, matrix cells","functions":["Worker::init_connid_counter","Worker::update_connid_counts","Lattice::add_connid_counts","ConnIdCounter::add","ConnIdCounter::new"],"fs":2048,"unwind":7,"timeout":1200,"mem_gb":16}
#[cfg(kani)]
#[kani::proof]
fn c13_counts_ab() {
    counts_one_sentence("\u{1}\u{2}", 2, false)
}

//@ c13_counts_trailing_space {"desc":"counts with ignore_space and a trailing space: the EOS evaluations are those against the nodes EOS actually connects from","bounds":"N=2 \"a<sp>\"; dictionary S13, ignore_space","symbolic":"ids, costs, matrix","functions":["Lattice::add_connid_counts","Worker::update_connid_counts"],"fs":2048,"unwind":7,"timeout":1200,"mem_gb":16}
#[cfg(kani)]
#[kani::proof]
fn c13_counts_trailing_space() {
    counts_one_sentence("\u{1}\u{4}", 2, true)
}

//@ c13_counts_inner_gap {"desc":"counts with ignore_space and an inner gap: the word after the spaces is counted against the nodes it was actually connected to (those ending before the gap)","bounds":"N=3 \"a<sp>b\"; dictionary S13, ignore_space","symbolic":"ids, costs, matrix","functions":["Worker::update_connid_counts","Lattice::add_connid_counts","ConnIdCounter::add"],"fs":2048,"unwind":8,"timeout":2400,"mem_gb":24}
#[cfg(kani)]
#[kani::proof]
fn c13_counts_inner_gap() {
    counts_one_sentence("\u{1}\u{4}\u{2}", 3, true)
}

//@ c13_empty_first {"desc":"an empty first line contributes nothing and does not panic","bounds":"history init,reset(\"\"),tokenize,update; dictionary S13","symbolic":"ids, costs, matrix","functions":["Worker::update_connid_counts","Lattice::add_connid_counts"],"fs":2048,"unwind":7,"timeout":900,"covers":"none"}
#[cfg(kani)]
#[kani::proof]
fn c13_empty_first() {
    let tok_owned = tokenizer_of(&S13, false, 0);
    let tok = &tok_owned;
    let mut w = tok.new_worker();
    w.init_connid_counter();
    w.reset_sentence("");
    w.tokenize();
    w.update_connid_counts();
    let (mut lid, mut rid) = ([0usize; 3], [0usize; 3]);
    counts_of(&w, &mut lid, &mut rid);
    for k in 0..3 {
        assert!(lid[k] == 0 && rid[k] == 0, "an empty sentence contributed to the statistics");
    }
    core::mem::forget(w);
    core::mem::forget(tok_owned);
}

//@ c13_empty_later {"desc":"an empty line after a sentence contributes nothing (the previous lattice is not counted again)","bounds":"history init,reset(\"c\"),tokenize,update,reset(\"\"),tokenize,update; dictionary S13","symbolic":"ids, costs, matrix","functions":["Worker::update_connid_counts","Lattice::add_connid_counts","Worker::reset_sentence"],"fs":2048,"unwind":7,"timeout":900}
#[cfg(kani)]
#[kani::proof]
fn c13_empty_later() {
    let tok_owned = tokenizer_of(&S13, false, 0);
    let tok = &tok_owned;
    let mut w = tok.new_worker();
    w.init_connid_counter();
    w.reset_sentence("\u{3}");
    w.tokenize();
    w.update_connid_counts();
    let (mut l1, mut r1) = ([0usize; 3], [0usize; 3]);
    counts_of(&w, &mut l1, &mut r1);
    w.reset_sentence("");
    w.tokenize();
    w.update_connid_counts();
    let (mut l2, mut r2) = ([0usize; 3], [0usize; 3]);
    counts_of(&w, &mut l2, &mut r2);
    for k in 0..3 {
        assert!(l1[k] == l2[k] && r1[k] == r2[k], "an empty sentence contributed to the statistics");
    }
    kani::cover!(l1[0] == 1);
    core::mem::forget(w);
    core::mem::forget(tok_owned);
}

//@ c13_repeat_adds_same {"desc":"each sentence contributes the same amount whatever preceded it: the same sentence twice gives exactly twice the counts","bounds":"history (reset(\"c\"),tokenize,update) x2; dictionary S13","symbolic":"ids, costs, matrix","functions":["Worker::update_connid_counts","Lattice::add_connid_counts"],"fs":2048,"unwind":7,"timeout":1200,"mem_gb":16}
#[cfg(kani)]
#[kani::proof]
fn c13_repeat_adds_same() {
    let tok_owned = tokenizer_of(&S13, false, 0);
    let tok = &tok_owned;
    let mut w = tok.new_worker();
    w.init_connid_counter();
    w.reset_sentence("\u{3}");
    w.tokenize();
    w.update_connid_counts();
    let (mut l1, mut r1) = ([0usize; 3], [0usize; 3]);
    counts_of(&w, &mut l1, &mut r1);
    w.reset_sentence("\u{3}");
    w.tokenize();
    w.update_connid_counts();
    let (mut l2, mut r2) = ([0usize; 3], [0usize; 3]);
    counts_of(&w, &mut l2, &mut r2);
    for k in 0..3 {
        assert!(l2[k] == 2 * l1[k] && r2[k] == 2 * r1[k]);
    }
    kani::cover!(l1[0] == 1);
    core::mem::forget(w);
    core::mem::forget(tok_owned);
}

//@ c13_long_then_short {"desc":"each sentence contributes the same amount whatever preceded it: after a 2-character sentence and then a 1-character one on the same worker, the counts are the sum of the two lattices' own evaluations (nothing of the longer lattice is counted again)","bounds":"history (reset(\"ab\"),tokenize,update),(reset(\"c\"),tokenize,update); dictionary S13","symbolic":"ids, costs, matrix","functions":["Worker::update_connid_counts","Lattice::add_connid_counts","Lattice::reset","ConnIdCounter::add"],"fs":2048,"unwind":7,"timeout":1800,"mem_gb":16}
#[cfg(kani)]
#[kani::proof]
fn c13_long_then_short() {
    let tok_owned = tokenizer_of(&S13, false, 0);
    let tok = &tok_owned;
    let mut w = tok.new_worker();
    w.init_connid_counter();
    let (mut lref, mut rref) = ([0usize; 3], [0usize; 3]);
    w.reset_sentence("\u{1}\u{2}");
    w.tokenize();
    w.update_connid_counts();
    recount(&w, 2, &mut lref, &mut rref);
    w.reset_sentence("\u{3}");
    w.tokenize();
    w.update_connid_counts();
    recount(&w, 1, &mut lref, &mut rref);
    let (mut lid, mut rid) = ([0usize; 3], [0usize; 3]);
    counts_of(&w, &mut lid, &mut rid);
    for k in 0..3 {
        assert!(lid[k] == lref[k], "left-id frequency after a longer and a shorter sentence differs from the two lattices' evaluations");
        assert!(rid[k] == rref[k], "right-id frequency after a longer and a shorter sentence differs from the two lattices' evaluations");
    }
    kani::cover!(lid[0] >= 2 && lid[1] >= 1);
    core::mem::forget(w);
    core::mem::forget(tok_owned);
}

/// `compute_probs` lists every id except 0 exactly once, ordered by non-increasing count with
/// ties by ascending id; the result is a mapping `ConnIdMapper::from_iter` accepts.
#[cfg(kani)]
fn probs(nl: usize, nr: usize, maxc: usize) {
    let mut lc = Vec::with_capacity(nl);
    let mut rc = Vec::with_capacity(nr);
    let mut lcopy = [0usize; 4];
    let mut rcopy = [0usize; 4];
    for i in 0..nl {
        let c = any_below(maxc + 1);
        lcopy[i] = c;
        lc.push(c);
    }
    for i in 0..nr {
        let c = any_below(maxc + 1);
        rcopy[i] = c;
        rc.push(c);
    }
    let counter = ConnIdCounter::verif_from_counts(lc, rc);
    let (lp, rp) = counter.compute_probs();
    assert!(lp.len() == nl - 1 && rp.len() == nr - 1);
    check_order(&lp, &lcopy, nl);
    check_order(&rp, &rcopy, nr);
    let mut lm = Vec::with_capacity(nl);
    for i in 0..nl - 1 {
        lm.push(lp[i].0 as u16);
    }
    let mut rm = Vec::with_capacity(nr);
    for i in 0..nr - 1 {
        rm.push(rp[i].0 as u16);
    }
    let m = ConnIdMapper::from_iter(lm.iter().cloned(), rm.iter().cloned());
    assert!(m.is_ok(), "the statistics are not accepted as a mapping");
    kani::cover!(lcopy[1] < lcopy[2]);
    kani::cover!(lcopy[1] == lcopy[2] && lcopy[1] > 0);
    core::mem::forget(m);
    core::mem::forget(counter);
}

#[cfg(kani)]
fn check_order(p: &ConnIdProbs, counts: &[usize; 4], n: usize) {
    let mut seen = [false; 4];
    for i in 0..n - 1 {
        let id = p[i].0;
        assert!(id >= 1 && id < n, "an id outside 1..n (or id 0) is listed");
        for k in 1..4 {
            if k == id {
                assert!(!seen[k], "an id is listed twice");
                seen[k] = true;
            }
        }
    }
    for i in 0..n - 2 {
        let (a, b) = (p[i].0, p[i + 1].0);
        let mut ca = 0;
        let mut cb = 0;
        for k in 1..4 {
            if k == a {
                ca = counts[k];
            }
            if k == b {
                cb = counts[k];
            }
        }
        assert!(ca > cb || (ca == cb && a < b), "not ordered by non-increasing frequency with ties by ascending id");
    }
}

//@ c13_probs_3x3 {"desc":"compute_probs on arbitrary counters: ids 1..2 once each per side, non-increasing frequency, ties ascending, accepted by ConnIdMapper::from_iter (all-zero counters included)","bounds":"3 left ids, 3 right ids, counts 0..7","symbolic":"all six counts","functions":["ConnIdCounter::compute_probs","ConnIdMapper::from_iter","ConnIdMapper::parse"],"unwind":6,"timeout":1200,"stubs":["alloc::fmt::format"]}
#[cfg(kani)]
#[kani::proof]
#[kani::stub(alloc::fmt::format, crate::c06::stub_format)]
fn c13_probs_3x3() {
    probs(3, 3, 7)
}

//@ c13_probs_4x3 {"tier":"thorough","core":false,"desc":"compute_probs with 3 listed left ids (sorting of three entries)","bounds":"4 left ids, 3 right ids, counts 0..3","symbolic":"all counts","functions":["ConnIdCounter::compute_probs","ConnIdMapper::from_iter"],"unwind":7,"timeout":2400,"mem_gb":20,"stubs":["alloc::fmt::format"]}
#[cfg(kani)]
#[kani::proof]
#[kani::stub(alloc::fmt::format, crate::c06::stub_format)]
fn c13_probs_4x3() {
    probs(4, 3, 3)
}

//@ c13_twin {"expect":"fail","desc":"vacuity twin: claims the first listed id is always 1","bounds":"3x3","symbolic":"counts","functions":["ConnIdCounter::compute_probs"],"unwind":6,"timeout":900,"covers":"none"}
#[cfg(kani)]
#[kani::proof]
fn c13_twin() {
    let mut lc = Vec::with_capacity(3);
    let mut rc = Vec::with_capacity(3);
    for _ in 0..3 {
        lc.push(any_below(4));
        rc.push(any_below(4));
    }
    let counter = ConnIdCounter::verif_from_counts(lc, rc);
    let (lp, _rp) = counter.compute_probs();
    assert!(lp[0].0 == 1, "VACUITY: frequency order can put id 2 first");
    core::mem::forget(counter);
}
