//! C17: rewrite rules - the first registered matching rule applies.
//!
//! Real code: `FeatureRewriterBuilder::add_rule` (trie insertion, pattern parsing) and
//! `FeatureRewriter::rewrite` (backtracking search), compiled from trainer/feature_rewriter.rs.
//! The `regex` crate is replaced by a hand-written matcher for the one pattern the file compiles
//! (cargo feature `verif-noregex`; the repository's own rewriter tests pass with it).
//! Structure concrete (number of rules, pattern lengths), values symbolic (which of `*`, `a`,
//! `b` each pattern element is; the input features).  The reference is the statement read
//! literally: scan the rules in registration order, take the first whose pattern matches
//! position-wise as a prefix.
use vibrato::verif_hooks::*;

#[cfg(kani)]
const OUTS: [&str; 4] = ["1", "2", "3", "4"];

/// A pattern element is chosen by control flow, not by data: each branch hands a *constant*
/// string to `add_rule`, so its parsing (`p == "*"`, `p.starts_with('(')`) folds and the
/// HashSet branch of `(a|b)` patterns is not opened for plain elements.
#[cfg(kani)]
fn pick_pat() -> u8 {
    let x: u8 = kani::any();
    kani::assume(x < 2);
    if x == 0 { b'*' } else { b'a' }
}

#[cfg(kani)]
fn pat_str(c: u8) -> &'static str {
    if c == b'*' { "*" } else if c == b'a' { "a" } else { "b" }
}

#[cfg(kani)]
fn add_rule2(b: &mut FeatureRewriterBuilder, p0: u8, p1: u8, len: usize, out: &'static str) {
    let o: [&str; 2] = [out, ""];
    // 4 call sites with constant patterns
    macro_rules! go { ($a:expr, $b:expr) => {{ let p: [&str; 3] = [$a, $b, ""]; b.add_rule(&p[..len], &o[..1]); }}; }
    if p0 == b'*' {
        if p1 == b'*' { go!("*", "*") } else { go!("*", "a") }
    } else {
        if p1 == b'*' { go!("a", "*") } else { go!("a", "a") }
    }
}

#[cfg(kani)]
fn pick_feat(slot: &mut &'static str) -> u8 {
    let x: u8 = kani::any();
    kani::assume(x < 2);
    *slot = if x == 0 { "a" } else { "b" };
    if x == 0 { b'a' } else { b'b' }
}

#[cfg(kani)]
fn elem_matches(p: u8, f: u8) -> bool {
    p == b'*' || p == f
}

/// `nrules` rules of `plen[i]` pattern elements each, every element symbolic in {*, a, b}; rule i
/// rewrites to the single text OUTS[i].  Features: `nf` symbolic elements in {a, b, c}.
#[cfg(kani)]
fn first_match(nrules: usize, plen: &[usize], nf: usize) {
    let mut b = FeatureRewriterBuilder::new();
    let mut pat = [[0u8; 3]; 4];
    for i in 0..nrules {
        for j in 0..2 {
            pat[i][j] = pick_pat();
        }
    }
    for i in 0..nrules {
        add_rule2(&mut b, pat[i][0], pat[i][1], plen[i], OUTS[i]);
    }
    let rw = FeatureRewriter::from(b);
    let mut f = [0u8; 3];
    let mut fbuf: [&'static str; 3] = [""; 3];
    for j in 0..nf {
        f[j] = pick_feat(&mut fbuf[j]);
    }
    let fs: [&str; 4] = [fbuf[0], fbuf[1], fbuf[2], ""];
    let got = rw.rewrite(&fs[..nf]);
    // reference: first rule, in registration order, whose pattern matches as a prefix
    let mut want = usize::MAX;
    for i in 0..nrules {
        if want == usize::MAX && plen[i] <= nf {
            let mut ok = true;
            for j in 0..plen[i] {
                if !elem_matches(pat[i][j], f[j]) {
                    ok = false;
                }
            }
            if ok {
                want = i;
            }
        }
    }
    match &got {
        None => assert!(want == usize::MAX, "a matching rule exists but the features were left unchanged"),
        Some(v) => {
            assert!(want != usize::MAX, "no rule matches but the features were rewritten");
            assert!(v.len() == 1);
            for i in 0..4 {
                if i == want {
                    assert!(v[0].as_bytes()[0] == OUTS[i].as_bytes()[0], "a rule other than the earliest matching one was applied");
                }
            }
        }
    }
    kani::cover!(want == 1);
    kani::cover!(want == usize::MAX);
    core::mem::forget(got);
    core::mem::forget(rw);
}

//@ c17_first_match_r2_l2 {"desc":"two rules with 2-element patterns over {*,a,b}, 2 features over {a,b,c}: the earliest matching rule is applied, none -> None","bounds":"2 rules x 2 pattern elements, 2 features","symbolic":"every pattern element, every feature","functions":["FeatureRewriterBuilder::add_rule","FeatureRewriter::rewrite","FeatureRewriter::from"],"unwind":8,"unwindset":["memcmp:16"],"fs":2048,"timeout":1200,"mem_gb":24,"stubs":["regex::Regex (hand-written matcher for ^\\$([0-9]+)$)"]}
#[cfg(kani)]
#[kani::proof]
fn c17_first_match_r2_l2() {
    first_match(2, &[2, 2], 2)
}

//@ c17_first_match_r3_l2 {"tier":"thorough","desc":"three rules with 2-element patterns over {*,a}, 2 features over {a,b}","bounds":"3 rules x 2 pattern elements, 2 features","symbolic":"every pattern element, every feature","functions":["FeatureRewriterBuilder::add_rule","FeatureRewriter::rewrite"],"unwind":8,"unwindset":["memcmp:16"],"fs":2048,"timeout":1800,"mem_gb":24,"stubs":["regex::Regex (hand-written matcher for ^\\$([0-9]+)$)"]}
#[cfg(kani)]
#[kani::proof]
fn c17_first_match_r3_l2() {
    first_match(3, &[2, 2, 2], 2)
}
