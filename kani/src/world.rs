//! Small dictionaries with concrete structure and symbolic values, driven through the public
//! tokenizer API (`Tokenizer::new`, `ignore_space`, `max_grouping_len`, `new_worker`,
//! `reset_sentence`, `tokenize`, `token`).  Hooks are used only to assemble the `Dictionary`
//! from parts (the builder needs text files, which are out of the solver's reach) and to read
//! state back.
#![allow(unused)]
use crate::util::*;
use vibrato::dictionary::Dictionary;
use vibrato::token::Token;
use vibrato::tokenizer::worker::Worker;
use vibrato::tokenizer::Tokenizer;
use vibrato::verif_hooks::*;

pub const A: char = '\u{1}';
pub const B: char = '\u{2}';
pub const C: char = '\u{3}';
/// The character that the SPACE category is assigned to in these dictionaries.
pub const SP: char = '\u{4}';

#[derive(Clone, Copy)]
pub struct LexSpec {
    pub trie: &'static [u8],
    pub post: &'static [u32],
    pub nwords: usize,
    pub surfs: &'static [&'static [u32]],
}

pub const L_A: LexSpec = LexSpec { trie: &gen::LEX_A_TRIE, post: &gen::LEX_A_POST, nwords: gen::LEX_A_NWORDS, surfs: &gen::LEX_A_SURF };
pub const L_B: LexSpec = LexSpec { trie: &gen::LEX_B_TRIE, post: &gen::LEX_B_POST, nwords: gen::LEX_B_NWORDS, surfs: &gen::LEX_B_SURF };
pub const L_B_AB: LexSpec = LexSpec { trie: &gen::LEX_B_AB_TRIE, post: &gen::LEX_B_AB_POST, nwords: gen::LEX_B_AB_NWORDS, surfs: &gen::LEX_B_AB_SURF };
pub const L_AB_AB: LexSpec = LexSpec { trie: &gen::LEX_AB_AB_TRIE, post: &gen::LEX_AB_AB_POST, nwords: gen::LEX_AB_AB_NWORDS, surfs: &gen::LEX_AB_AB_SURF };
pub const L_A_AB_AB: LexSpec = LexSpec { trie: &gen::LEX_A_AB_AB_TRIE, post: &gen::LEX_A_AB_AB_POST, nwords: gen::LEX_A_AB_AB_NWORDS, surfs: &gen::LEX_A_AB_AB_SURF };
pub const L_AB: LexSpec = LexSpec { trie: &gen::LEX_AB_TRIE, post: &gen::LEX_AB_POST, nwords: gen::LEX_AB_NWORDS, surfs: &gen::LEX_AB_SURF };
pub const L_A_AB: LexSpec = LexSpec { trie: &gen::LEX_A_AB_TRIE, post: &gen::LEX_A_AB_POST, nwords: gen::LEX_A_AB_NWORDS, surfs: &gen::LEX_A_AB_SURF };
pub const L_A_B_AB: LexSpec = LexSpec { trie: &gen::LEX_A_B_AB_TRIE, post: &gen::LEX_A_B_AB_POST, nwords: gen::LEX_A_B_AB_NWORDS, surfs: &gen::LEX_A_B_AB_SURF };
pub const L_A_A_AB: LexSpec = LexSpec { trie: &gen::LEX_A_A_AB_TRIE, post: &gen::LEX_A_A_AB_POST, nwords: gen::LEX_A_A_AB_NWORDS, surfs: &gen::LEX_A_A_AB_SURF };
pub const L_AB_A_AB: LexSpec = LexSpec { trie: &gen::LEX_AB_A_AB_TRIE, post: &gen::LEX_AB_A_AB_POST, nwords: gen::LEX_AB_A_AB_NWORDS, surfs: &gen::LEX_AB_A_AB_SURF };

/// One row of the character table: (category set, primary category, invoke, group, length).
pub type CatRow = (u32, u32, bool, bool, u16);

/// Category layout.  Table index = code point (0..=4); everything else falls back to row 0.
#[derive(Clone, Copy)]
pub struct Cats {
    pub rows: [CatRow; 5],
    pub ncat: usize,
    pub space: Option<usize>,
}

/// DEFAULT = {group, no invoke, length 0}; letters a,b in category 1 {invoke, no group, length 2};
/// c is DEFAULT; SPACE (category 2) alone on U+0004 {no invoke, group, length 0}.
pub const CATS_MIX: Cats = Cats {
    rows: [
        (0b001, 0, false, true, 0),
        (0b010, 1, true, false, 2),
        (0b010, 1, true, false, 2),
        (0b001, 0, false, true, 0),
        (0b100, 2, false, true, 0),
    ],
    ncat: 3,
    space: Some(2),
};

/// Letters are not invoked when the lexicon matches; DEFAULT groups and has length 1;
/// b additionally belongs to DEFAULT (multi-category chaining with c).
pub const CATS_CHAIN: Cats = Cats {
    rows: [
        (0b001, 0, true, true, 1),
        (0b010, 1, false, true, 1),
        (0b011, 1, false, true, 1),
        (0b001, 0, true, true, 1),
        (0b100, 2, false, true, 0),
    ],
    ncat: 3,
    space: Some(2),
};

/// No grouping anywhere, lengths 1..3, everything invoked: the densest unknown lattices.
pub const CATS_DENSE: Cats = Cats {
    rows: [
        (0b001, 0, true, false, 3),
        (0b010, 1, true, false, 2),
        (0b010, 1, true, false, 2),
        (0b001, 0, true, false, 3),
        (0b100, 2, true, false, 1),
    ],
    ncat: 3,
    space: Some(2),
};

/// Four categories with SPACE declared last (category id 3): `1 << id` and `id << 1` differ.
pub const CATS_SPACE3: Cats = Cats {
    rows: [
        (0b0001, 0, false, true, 0),
        (0b0010, 1, true, false, 2),
        (0b0100, 2, true, false, 2),
        (0b0001, 0, false, true, 0),
        (0b1000, 3, false, true, 0),
    ],
    ncat: 4,
    space: Some(3),
};

/// Same as CATS_MIX but without a SPACE category (ignore_space must be rejected).
pub const CATS_NOSPACE: Cats = Cats {
    rows: [
        (0b01, 0, false, true, 0),
        (0b10, 1, true, false, 2),
        (0b10, 1, true, false, 2),
        (0b01, 0, false, true, 0),
        (0b01, 0, false, true, 0),
    ],
    ncat: 2,
    space: None,
};

#[derive(Clone, Copy)]
pub struct Spec {
    pub sys: LexSpec,
    pub user: Option<LexSpec>,
    pub cats: Cats,
    /// number of unk.def entries per category
    pub unk_mult: &'static [usize],
    pub nr: usize,
    pub nl: usize,
}

pub fn feature_of(tag: char, i: usize) -> String {
    let mut f = String::with_capacity(3);
    f.push(tag);
    f.push((b'0' + i as u8) as char);
    f
}

#[cfg(kani)]
pub fn lexicon_of(l: &LexSpec, nr: usize, nl: usize, t: LexType) -> Lexicon {
    let mut params = Vec::with_capacity(l.nwords);
    let mut feats = Vec::with_capacity(l.nwords);
    let tag = if t == LexType::User { 'u' } else { 's' };
    for i in 0..l.nwords {
        params.push(sym_param(nr, nl));
        feats.push(feature_of(tag, i));
    }
    Lexicon::verif_from_parts(l.trie, copy_u32(l.post), params, feats, t)
}

pub fn char_prop_of(c: &Cats) -> CharProperty {
    let mut table = Vec::with_capacity(5);
    for r in c.rows.iter() {
        table.push(CharInfo::new(r.0, r.1, r.2, r.3, r.4).unwrap());
    }
    CharProperty::verif_from_parts(table, cat_names(c.ncat, c.space))
}

#[cfg(kani)]
pub fn unk_of(mult: &[usize], nr: usize, nl: usize) -> UnkHandler {
    let mut offsets = Vec::with_capacity(mult.len() + 1);
    let mut entries = Vec::new();
    let mut k = 0;
    for (c, &m) in mult.iter().enumerate() {
        offsets.push(entries.len());
        for _ in 0..m {
            let p = sym_param(nr, nl);
            entries.push(UnkEntry {
                cate_id: c as u16,
                left_id: p.left_id,
                right_id: p.right_id,
                word_cost: p.word_cost,
                feature: feature_of('k', k),
            });
            k += 1;
        }
    }
    offsets.push(entries.len());
    UnkHandler::verif_from_parts(offsets, entries)
}

/// The dictionary of a spec with a symbolic matrix connector.
#[cfg(kani)]
pub fn dict_of(s: &Spec) -> Dictionary {
    let sys = lexicon_of(&s.sys, s.nr, s.nl, LexType::System);
    let user = match &s.user {
        Some(u) => Some(lexicon_of(u, s.nr, s.nl, LexType::User)),
        None => None,
    };
    Dictionary::verif_from_parts(
        sys,
        user,
        ConnectorWrapper::Matrix(sym_matrix(s.nr, s.nl)),
        None,
        char_prop_of(&s.cats),
        unk_of(s.unk_mult, s.nr, s.nl),
    )
}

#[cfg(kani)]
pub fn tokenizer_of(s: &Spec, ignore_space: bool, max_group: usize) -> Tokenizer {
    let t = Tokenizer::new(dict_of(s));
    // `ignore_space(false)` is the default state; going through its `Result` only when needed
    // keeps the connector enum's discriminant constant for CBMC in the common case.
    let t = if ignore_space {
        match t.ignore_space(true) {
            Ok(t) => t,
            Err(_) => unreachable!(),
        }
    } else {
        t
    };
    t.max_grouping_len(max_group)
}

/// byte offset of every character boundary, computed independently of `Sentence`
pub fn ref_c2b(chars: &[char], out: &mut [usize; 8]) -> usize {
    let mut b = 0;
    for (i, c) in chars.iter().enumerate() {
        out[i] = b;
        b += c.len_utf8();
    }
    out[chars.len()] = b;
    b
}

pub fn is_space(s: &Spec, c: char) -> bool {
    let cp = c as usize;
    let row = if cp < 5 { s.cats.rows[cp] } else { s.cats.rows[0] };
    match s.cats.space {
        Some(sp) => row.0 & (1 << sp) != 0,
        None => false,
    }
}

/// The C01 assertions on the reported path of `w` for the sentence `chars`.  The path is read
/// from the worker's result list at concrete indices (each `Worker::token(i)` accessor call
/// re-indexes that list with a symbolic index, which multiplies the formula size by ~8; the
/// accessors themselves are verified against an arbitrary stored node in `c01_token_accessors`).
/// Token i (BOS-first) is `top_nodes[len-1-i]`, as in `Worker::token`.
#[cfg(kani)]
pub fn check_partition(w: &Worker, tok: &Tokenizer, s: &Spec, chars: &[char], text: &str, ignore_space: bool) -> usize {
    let n = chars.len();
    let dict = tok.dictionary();
    let nt = w.num_tokens();
    let top = w.verif_top_nodes();
    assert!(nt == top.len());
    assert!(nt <= n, "more tokens than characters");
    // the sentence the worker holds is the input
    let raw = w.verif_sent().raw().as_bytes();
    let tb = text.as_bytes();
    let mut c2b = [0usize; 8];
    let nbytes = ref_c2b(chars, &mut c2b);
    assert!(raw.len() == nbytes && tb.len() == nbytes);
    for j in 0..nbytes {
        assert!(raw[j] == tb[j]);
    }
    for j in 0..n + 1 {
        assert!(w.verif_sent().byte_position(j) == c2b[j]);
    }
    let mut pos = 0usize;
    let mut idx = n;
    while idx > 0 {
        idx -= 1;
        if idx < nt {
            let (end, nd) = &top[idx];
            let (start, end) = (nd.start_word, *end);
            assert!(start < end, "empty token");
            assert!(end <= n);
            assert!(start >= pos, "tokens overlap or are out of order");
            assert!(nd.start_node == pos, "a token does not connect to the end of the previous one");
            if !ignore_space {
                assert!(start == pos, "tokens leave a gap without ignore_space");
            } else {
                for j in 0..n {
                    if j == pos && start > pos {
                        assert!(is_space(s, chars[j]), "a gap does not begin with a SPACE character");
                    }
                }
            }
            // the dictionary entry it names, and that entry is a legitimate candidate for the span
            let len = end - start;
            let wid = nd.word_id as usize;
            match nd.lex_type {
                LexType::System | LexType::User => {
                    let (l, lx) = if nd.lex_type == LexType::System {
                        (s.sys, dict.verif_system_lexicon())
                    } else {
                        assert!(s.user.is_some(), "user token without a user lexicon");
                        (s.user.unwrap(), dict.verif_user_lexicon().unwrap())
                    };
                    let mut ok = false;
                    for wi in 0..l.nwords {
                        if wid == wi {
                            let sf = l.surfs[wi];
                            ok = sf.len() == len;
                            for j in 0..sf.len() {
                                for st in 0..n {
                                    if st == start && st + j < n && sf[j] != chars[st + j] as u32 {
                                        ok = false;
                                    }
                                }
                            }
                            let p = lx.word_param(WordIdx { lex_type: nd.lex_type, word_id: wi as u32 });
                            assert!(nd.left_id == p.left_id && nd.right_id == p.right_id,
                                "ids differ from the dictionary entry the token names");
                        }
                    }
                    assert!(ok, "a lexicon token's surface is not its entry's surface");
                }
                LexType::Unknown => {
                    let mut lo = usize::MAX;
                    let mut hi = 0;
                    for st in 0..n {
                        if st == start {
                            let cp = chars[st] as usize;
                            let row = if cp < 5 { s.cats.rows[cp] } else { s.cats.rows[0] };
                            lo = 0;
                            for c in 0..row.1 as usize {
                                lo += s.unk_mult[c];
                            }
                            hi = lo + s.unk_mult[row.1 as usize];
                        }
                    }
                    assert!(wid >= lo && wid < hi,
                        "an unknown token's entry is not of the first character's primary category");
                    let es = dict.verif_unk_handler().verif_entries();
                    let mut tot = 0;
                    for c in 0..s.unk_mult.len() {
                        tot += s.unk_mult[c];
                    }
                    for e in 0..tot {
                        if e == wid {
                            assert!(nd.left_id == es[e].left_id && nd.right_id == es[e].right_id,
                                "ids differ from the unknown entry the token names");
                        }
                    }
                }
            }
            pos = end;
        }
    }
    if !ignore_space {
        assert!(pos == n, "tokens do not cover the input");
    } else {
        for j in 0..n {
            if j == pos {
                assert!(is_space(s, chars[j]), "the trailing gap does not begin with a SPACE character");
            }
        }
    }
    nt
}
