//! C01: tokens partition the input text.
//!
//! Family 1: offset table and token accessors for fully symbolic Unicode scalars.
//! Family 2: the real pipeline through the public API on concrete sentences over concrete
//! dictionary structure with symbolic costs, ids and connection matrix.
use crate::util::*;
use crate::world::*;
use vibrato::dictionary::Dictionary;
use vibrato::tokenizer::Tokenizer;
use vibrato::verif_hooks::*;

// ---------------------------------------------------------------------------------------
// family 1
// ---------------------------------------------------------------------------------------
/// A symbolic scalar value of the given UTF-8 width, written as its bytes into `buf` at `pos`.
/// The *widths* are the concrete structure of an instance; the code points are symbolic.
#[cfg(kani)]
fn put_char(buf: &mut [u8; 16], pos: usize, width: usize) -> char {
    let cp: u32 = kani::any();
    match width {
        1 => {
            kani::assume(cp < 0x80);
            buf[pos] = cp as u8;
        }
        2 => {
            kani::assume(cp >= 0x80 && cp < 0x800);
            buf[pos] = 0xC0 | (cp >> 6) as u8;
            buf[pos + 1] = 0x80 | (cp & 0x3F) as u8;
        }
        3 => {
            kani::assume(cp >= 0x800 && cp < 0x10000 && !(cp >= 0xD800 && cp < 0xE000));
            buf[pos] = 0xE0 | (cp >> 12) as u8;
            buf[pos + 1] = 0x80 | ((cp >> 6) & 0x3F) as u8;
            buf[pos + 2] = 0x80 | (cp & 0x3F) as u8;
        }
        _ => {
            kani::assume(cp >= 0x10000 && cp < 0x110000);
            buf[pos] = 0xF0 | (cp >> 18) as u8;
            buf[pos + 1] = 0x80 | ((cp >> 12) & 0x3F) as u8;
            buf[pos + 2] = 0x80 | ((cp >> 6) & 0x3F) as u8;
            buf[pos + 3] = 0x80 | (cp & 0x3F) as u8;
        }
    }
    match char::from_u32(cp) {
        Some(c) => c,
        None => unreachable!(),
    }
}

#[cfg(kani)]
fn offsets(widths: &[usize]) {
    let n = widths.len();
    let mut buf = [0u8; 16];
    let mut cs = ['\0'; 3];
    let mut total = 0;
    for i in 0..n {
        cs[i] = put_char(&mut buf, total, widths[i]);
        total += widths[i];
    }
    // the bytes are valid UTF-8 by construction
    let s: &str = unsafe { core::str::from_utf8_unchecked(&buf[..total]) };
    let mut table = Vec::with_capacity(5);
    for _ in 0..5 {
        table.push(CharInfo::verif_from_raw(kani::any()));
    }
    let prop = CharProperty::verif_from_parts(table, Vec::new());
    // buffers with spare capacity: symex cannot know that only n characters will be decoded from
    // the symbolic bytes and would otherwise explore Vec growth (realloc) on every push
    let mut sent = Sentence::verif_from_parts(
        String::with_capacity(16),
        Vec::with_capacity(16),
        Vec::with_capacity(17),
        Vec::with_capacity(16),
        Vec::with_capacity(16),
    );
    sent.set_sentence(s);
    // `compile` = compute_basic + category lookup + grouping; the latter two are decided on their
    // own (c03_char_info_lookup, c03_groupable_*), and `resize` with a symbolic length is heavy
    sent.verif_compute_basic();
    let _ = &prop;
    assert!(sent.len_char() == n, "number of characters");
    let mut b = 0;
    for i in 0..n {
        assert!(sent.chars()[i] == cs[i], "decoded character");
        assert!(sent.byte_position(i) == b, "char-to-byte offset");
        b += widths[i];
    }
    assert!(sent.byte_position(n) == total);
    assert!(sent.raw().len() == total);
    kani::cover!(cs[0] as u32 > 0x7F || widths[0] == 1);
    core::mem::forget(sent);
    core::mem::forget(prop);
}

//@ c01_offsets_w14 {"desc":"char-to-byte offset table: a 1-byte then a 4-byte (astral) character, any code points of those widths","bounds":"N=2, UTF-8 widths [1,4]","symbolic":"both code points, the category table","functions":["Sentence::set_sentence","Sentence::compile","Sentence::compute_basic","Sentence::byte_position"],"unwind":7,"timeout":900}
#[cfg(kani)]
#[kani::proof]
fn c01_offsets_w14() {
    offsets(&[1, 4])
}

//@ c01_offsets_w32 {"desc":"char-to-byte offset table: a 3-byte then a 2-byte character","bounds":"N=2, UTF-8 widths [3,2]","symbolic":"both code points, the category table","functions":["Sentence::set_sentence","Sentence::compile","Sentence::compute_basic","Sentence::byte_position"],"unwind":7,"timeout":900}
#[cfg(kani)]
#[kani::proof]
fn c01_offsets_w32() {
    offsets(&[3, 2])
}

//@ c01_offsets_w413 {"tier":"thorough","desc":"char-to-byte offset table: widths 4,1,3","bounds":"N=3, UTF-8 widths [4,1,3]","symbolic":"all code points, the category table","functions":["Sentence::set_sentence","Sentence::compile","Sentence::compute_basic","Sentence::byte_position"],"unwind":8,"timeout":1800}
#[cfg(kani)]
#[kani::proof]
fn c01_offsets_w413() {
    offsets(&[4, 1, 3])
}

//@ c01_offsets_w242 {"tier":"thorough","desc":"char-to-byte offset table: widths 2,4,2","bounds":"N=3, UTF-8 widths [2,4,2]","symbolic":"all code points, the category table","functions":["Sentence::set_sentence","Sentence::compile","Sentence::compute_basic","Sentence::byte_position"],"unwind":8,"timeout":1800}
#[cfg(kani)]
#[kani::proof]
fn c01_offsets_w242() {
    offsets(&[2, 4, 2])
}

const S_MIN: Spec = Spec { sys: L_A, user: None, cats: CATS_MIX, unk_mult: &[1, 1, 1], nr: 1, nl: 1 };

//@ c01_token_accessors {"desc":"every Token accessor reflects the stored node and the sentence: range_char, range_byte, surface agree with one another and with the input; ids/total_cost come from the node; feature/word_cost/lex_type are those of the entry named by word_idx","bounds":"2-character sentence of widths [3,1] with symbolic code points; one stored node with arbitrary span start<end<=2 and arbitrary entry of a 3-entry dictionary","symbolic":"code points, node span, lexicon type, word id, ids, cost; dictionary costs/ids","functions":["Token::range_char","Token::range_byte","Token::surface","Token::feature","Token::lex_type","Token::left_id","Token::right_id","Token::word_cost","Token::total_cost","Token::word_idx","Worker::token","Worker::num_tokens","TokenIter::next","Dictionary::word_feature","Dictionary::word_param"],"unwind":7,"fs":2048,"timeout":900}
#[cfg(kani)]
#[kani::proof]
fn c01_token_accessors() {
    let tok_owned = tokenizer_of(&S_MIN, false, 0);
    let tok = &tok_owned;
    let mut w = tok.new_worker();
    let mut buf = [0u8; 16];
    let c0 = put_char(&mut buf, 0, 3);
    let c1 = put_char(&mut buf, 3, 1);
    let s: &str = unsafe { core::str::from_utf8_unchecked(&buf[..4]) };
    w.verif_sent_mut().set_sentence(s);
    w.verif_sent_mut().verif_compute_basic();
    let start = any_below(2);
    let end: usize = kani::any();
    kani::assume(end > start && end <= 2);
    // which entry the node names: the system word 0, or unknown entry 0..2
    let unknown: bool = kani::any();
    let wid: u32 = if unknown { any_below(3) as u32 } else { 0 };
    let mut nd = Node::default();
    nd.start_word = start;
    nd.start_node = start;
    nd.lex_type = if unknown { LexType::Unknown } else { LexType::System };
    nd.word_id = wid;
    nd.left_id = kani::any();
    nd.right_id = kani::any();
    nd.min_cost = kani::any();
    let (lid, rid, mc) = (nd.left_id, nd.right_id, nd.min_cost);
    w.verif_top_nodes_mut().push((end, nd));
    assert!(w.num_tokens() == 1);
    let t = w.token(0);
    let rc = t.range_char();
    assert!(rc.start == start && rc.end == end);
    let bs = if start == 0 { 0 } else { 3 };
    let be = if end == 1 { 3 } else { 4 };
    let rb = t.range_byte();
    assert!(rb.start == bs && rb.end == be, "byte range disagrees with char range");
    let sf = t.surface();
    assert!(sf.len() == be - bs);
    let first = sf.chars().next();
    assert!(first == Some(if start == 0 { c0 } else { c1 }), "surface is not the input slice");
    assert!(t.left_id() == lid && t.right_id() == rid && t.total_cost() == mc);
    assert!(t.lex_type() == (if unknown { LexType::Unknown } else { LexType::System }));
    assert!(t.word_idx().word_id == wid);
    let d = tok.dictionary();
    let f = t.feature().as_bytes();
    assert!(f.len() == 2 && f[0] == (if unknown { b'k' } else { b's' }) && f[1] == b'0' + wid as u8,
        "feature is not that of the named entry");
    let want_cost = if unknown {
        let es = d.verif_unk_handler().verif_entries();
        let mut c = 0i16;
        for e in 0..3 {
            if e == wid as usize {
                c = es[e].word_cost;
            }
        }
        c
    } else {
        d.verif_system_lexicon().word_param(WordIdx { lex_type: LexType::System, word_id: 0 }).word_cost
    };
    assert!(t.word_cost() == want_cost, "word cost is not that of the named entry");
    let mut it = w.token_iter();
    assert!(it.next().is_some());
    assert!(it.next().is_none());
    kani::cover!(unknown && wid == 2 && start == 1);
    kani::cover!(!unknown && start == 0 && end == 2);
    core::mem::forget(w);
    core::mem::forget(tok_owned);
}

// ---------------------------------------------------------------------------------------
// family 2
// ---------------------------------------------------------------------------------------
macro_rules! pipeline {
    ($name:ident, $spec:expr, [$($c:expr),*], $text:expr, $ign:expr, $mg:expr, $cover:expr) => {
        #[cfg(kani)]
        #[kani::proof]
        fn $name() {
            let spec: Spec = $spec;
            let tok_owned = tokenizer_of(&spec, $ign, $mg);
    let tok = &tok_owned;
            let mut w = tok.new_worker();
            w.reset_sentence($text);
            if $ign {
                // `ignore_space(true)` hands the tokenizer back inside a `Result`; CBMC then no
                // longer sees the connector enum's discriminant as a constant and explores the
                // raw/dual arms of `build_lattice`'s dispatch.  Enter the matrix arm directly.
                w.verif_tokenize_with(matrix_of(tok.dictionary().verif_connector()));
            } else {
                w.tokenize();
            }
            let chars = [$($c),*];
            let nt = check_partition(&w, tok, &spec, &chars, $text, $ign);
            kani::cover!(nt == $cover);
            core::mem::forget(w);
            core::mem::forget(tok_owned);
        }
    };
}

const S1: Spec = Spec { sys: L_A_AB, user: None, cats: CATS_MIX, unk_mult: &[1, 1, 1], nr: 2, nl: 2 };
const S2: Spec = Spec { sys: L_A_B_AB, user: Some(L_AB), cats: CATS_CHAIN, unk_mult: &[1, 1, 1], nr: 2, nl: 2 };
/// chained categories (b belongs to two), small otherwise
const S2S: Spec = Spec { sys: L_B, user: None, cats: CATS_CHAIN, unk_mult: &[1, 1, 1], nr: 2, nl: 2 };
const S3: Spec = Spec { sys: L_B, user: None, cats: CATS_DENSE, unk_mult: &[1, 2, 1], nr: 2, nl: 2 };
/// DEFAULT has no unk.def entry (accepted by the builder; the bundled test dictionary is like that)
const S_KF: Spec = Spec { sys: L_A_AB, user: None, cats: CATS_MIX, unk_mult: &[0, 1, 1], nr: 2, nl: 2 };

//@ c01_pipe_s1_ab {"desc":"partition of \"ab\" (lexicon a, ab; unknown invoked for letters)","bounds":"N=2; dictionary S1: words {a,ab}, 3 categories, 1 unk entry each, 2x2 matrix","symbolic":"all word/unk costs and ids, matrix cells","functions":["Worker::reset_sentence","Worker::tokenize","Tokenizer::build_lattice","Tokenizer::build_lattice_inner","Tokenizer::add_lattice_edges","Lattice::*","UnkHandler::gen_unk_words","Lexicon::common_prefix_iterator","Token::*"],"fs":2048,"unwind":6,"timeout":900}
pipeline!(c01_pipe_s1_ab, S1, [A, B], "\u{1}\u{2}", false, 0, 1);
//@ c01_pipe_s1_ca {"desc":"partition of \"ca\" (c is unknown-only, grouped DEFAULT)","bounds":"N=2; dictionary S1","symbolic":"costs, ids, matrix","functions":["Worker::reset_sentence","Worker::tokenize","Tokenizer::build_lattice_inner","UnkHandler::gen_unk_words","Lattice::*","Token::*"],"fs":2048,"unwind":6,"timeout":900}
pipeline!(c01_pipe_s1_ca, S1, [C, A], "\u{3}\u{1}", false, 0, 2);
//@ c01_pipe_s1_a_e9 {"desc":"partition of \"a\\u00e9\": 2-byte character absent from the table (DEFAULT)","bounds":"N=2; dictionary S1","symbolic":"costs, ids, matrix","functions":["Worker::reset_sentence","Worker::tokenize","Sentence::compile","CharProperty::char_info","Token::range_byte","Token::surface"],"fs":2048,"unwind":6,"timeout":900}
pipeline!(c01_pipe_s1_a_e9, S1, [A, '\u{e9}'], "\u{1}\u{e9}", false, 0, 2);
//@ c01_pipe_s1_astral_a {"desc":"partition of \"\\u1F600a\": astral-plane character first, byte offsets 0,4,5","bounds":"N=2; dictionary S1","symbolic":"costs, ids, matrix","functions":["Worker::reset_sentence","Worker::tokenize","Sentence::compile","Token::range_byte","Token::surface"],"fs":2048,"unwind":6,"timeout":900}
pipeline!(c01_pipe_s1_astral_a, S1, ['\u{1F600}', A], "\u{1F600}\u{1}", false, 0, 2);
//@ c01_pipe_s1_hira_b {"desc":"partition of \"\\u3042b\": 3-byte character absent from the table","bounds":"N=2; dictionary S1","symbolic":"costs, ids, matrix","functions":["Worker::reset_sentence","Worker::tokenize","Token::range_byte"],"fs":2048,"unwind":6,"timeout":900,"tier":"thorough"}
pipeline!(c01_pipe_s1_hira_b, S1, ['\u{3042}', B], "\u{3042}\u{2}", false, 0, 2);
//@ c01_pipe_s1_sp_noignore {"desc":"without ignore_space a SPACE character is tokenized like any other","bounds":"N=2 \"a<sp>\"; dictionary S1","symbolic":"costs, ids, matrix","functions":["Worker::tokenize","Tokenizer::build_lattice_inner"],"fs":2048,"unwind":6,"timeout":900}
pipeline!(c01_pipe_s1_sp_noignore, S1, [A, SP], "\u{1}\u{4}", false, 0, 2);
//@ c01_pipe_s1_a_sp_ignore {"desc":"ignore_space, trailing space: \"a<sp>\" -> gap at the end begins with SPACE","bounds":"N=2; dictionary S1","symbolic":"costs, ids, matrix","functions":["Tokenizer::ignore_space","Tokenizer::build_lattice_inner","Lattice::insert_eos","Lattice::append_top_nodes"],"fs":2048,"unwind":6,"timeout":900}
pipeline!(c01_pipe_s1_a_sp_ignore, S1, [A, SP], "\u{1}\u{4}", true, 0, 1);
//@ c01_pipe_s1_sp_a_ignore {"desc":"ignore_space, leading space: \"<sp>a\"","bounds":"N=2; dictionary S1","symbolic":"costs, ids, matrix","functions":["Tokenizer::ignore_space","Tokenizer::build_lattice_inner"],"fs":2048,"unwind":6,"timeout":900}
pipeline!(c01_pipe_s1_sp_a_ignore, S1, [SP, A], "\u{4}\u{1}", true, 0, 1);
//@ c01_pipe_s1_spaces_only {"desc":"ignore_space, spaces only: no tokens","bounds":"N=2 \"<sp><sp>\"; dictionary S1","symbolic":"costs, ids, matrix","functions":["Tokenizer::build_lattice_inner","Lattice::insert_eos","Lattice::append_top_nodes"],"fs":2048,"unwind":6,"timeout":900}
pipeline!(c01_pipe_s1_spaces_only, S1, [SP, SP], "\u{4}\u{4}", true, 0, 0);
//@ c01_pipe_s2_ab_user {"tier":"thorough","core":false,"mem_gb":24,"desc":"partition of \"ab\" with a user lexicon holding a homograph of a system word","bounds":"N=2; dictionary S2: system {a,b,ab}, user {ab}, chained categories, 1/1/1 unk entries, 2x2 matrix","symbolic":"costs, ids, matrix","functions":["Tokenizer::add_lattice_edges","Dictionary::word_feature","Dictionary::word_param","Token::lex_type"],"fs":2048,"unwind":7,"timeout":900}
pipeline!(c01_pipe_s2_ab_user, S2, [A, B], "\u{1}\u{2}", false, 0, 1);
//@ c01_pipe_s2_bc {"tier":"thorough","core":false,"mem_gb":24,"desc":"partition of \"bc\": b belongs to two categories and chains with c","bounds":"N=2; dictionary S2","symbolic":"costs, ids, matrix","functions":["Sentence::compute_groupable","UnkHandler::gen_unk_words","Tokenizer::add_lattice_edges"],"fs":2048,"unwind":7,"timeout":900}
pipeline!(c01_pipe_s2_bc, S2, [B, C], "\u{2}\u{3}", false, 0, 1);
//@ c01_pipe_chain_bc {"desc":"partition of \"bc\": b belongs to two categories and chains with c (multi-category grouping)","bounds":"N=2; dictionary S2S: system {b}, chained categories","symbolic":"costs, ids, matrix","functions":["Sentence::compute_groupable","UnkHandler::gen_unk_words","Tokenizer::add_lattice_edges"],"fs":2048,"unwind":7,"timeout":900}
pipeline!(c01_pipe_chain_bc, S2S, [B, C], "\u{2}\u{3}", false, 0, 2);
//@ c01_pipe_s3_aa_dense {"desc":"partition of \"aa\" where only unknown words exist for a (two entries per candidate)","bounds":"N=2; dictionary S3: system {b}, dense categories, 1/2/1 unk entries","symbolic":"costs, ids, matrix","functions":["UnkHandler::gen_unk_words","UnkHandler::scan_entries","Lattice::insert_node"],"fs":2048,"unwind":7,"timeout":900}
pipeline!(c01_pipe_s3_aa_dense, S3, [A, A], "\u{1}\u{1}", false, 0, 1);
//@ c01_pipe_s1_cc_maxgroup1 {"desc":"max_grouping_len=1 with a grouped run of 2","bounds":"N=2 \"cc\"; dictionary S1","symbolic":"costs, ids, matrix","functions":["Tokenizer::max_grouping_len","UnkHandler::gen_unk_words"],"fs":2048,"unwind":6,"timeout":900}
pipeline!(c01_pipe_s1_cc_maxgroup1, S1, [C, C], "\u{3}\u{3}", false, 1, 1);
//@ c01_pipe_s1_a {"desc":"partition of a single character","bounds":"N=1; dictionary S1","symbolic":"costs, ids, matrix","functions":["Worker::reset_sentence","Worker::tokenize"],"fs":2048,"unwind":6,"timeout":600}
pipeline!(c01_pipe_s1_a, S1, [A], "\u{1}", false, 0, 1);

/// user lexicon {a}, system lexicon {b}
const S_U: Spec = Spec { sys: L_B, user: Some(L_A), cats: CATS_MIX, unk_mult: &[1, 1, 1], nr: 2, nl: 2 };
//@ c01_pipe_user_after_space {"desc":"ignore_space with a user-lexicon word directly after a skipped space: \"<sp>a\"","bounds":"N=2; dictionary S_U: system {b}, user {a}","symbolic":"costs, ids, matrix","functions":["Tokenizer::add_lattice_edges","Tokenizer::build_lattice_inner","Lattice::insert_node"],"fs":2048,"unwind":6,"timeout":900}
pipeline!(c01_pipe_user_after_space, S_U, [SP, A], "\u{4}\u{1}", true, 0, 1);
//@ c01_pipe_user_b_sp_a {"tier":"thorough","desc":"ignore_space, user word after an inner gap: \"b<sp>a\"","bounds":"N=3; dictionary S_U","symbolic":"costs, ids, matrix","functions":["Tokenizer::add_lattice_edges","Tokenizer::build_lattice_inner"],"fs":2048,"unwind":7,"timeout":2400,"mem_gb":24}
pipeline!(c01_pipe_user_b_sp_a, S_U, [B, SP, A], "\u{2}\u{4}\u{1}", true, 0, 2);

//@ c01_pipe_s1_ccc_maxgroup1 {"tier":"thorough","core":false,"desc":"max_grouping_len=1 with a grouped run of 3: the run of 3 is omitted at position 0 (single character), the run of 2 at position 1 is allowed","bounds":"N=3 \"ccc\"; dictionary S1","symbolic":"costs, ids, matrix","functions":["Tokenizer::max_grouping_len","UnkHandler::gen_unk_words"],"fs":2048,"unwind":7,"timeout":2400,"mem_gb":24}
pipeline!(c01_pipe_s1_ccc_maxgroup1, S1, [C, C, C], "\u{3}\u{3}\u{3}", false, 1, 2);
//@ c01_pipe_s1_a_sp_b_ignore {"desc":"ignore_space, inner gap: \"a<sp>b\"","bounds":"N=3; dictionary S1","symbolic":"costs, ids, matrix","functions":["Tokenizer::build_lattice_inner","Lattice::insert_node","Lattice::append_top_nodes"],"fs":2048,"unwind":7,"timeout":2400,"mem_gb":24}
pipeline!(c01_pipe_s1_a_sp_b_ignore, S1, [A, SP, B], "\u{1}\u{4}\u{2}", true, 0, 2);
//@ c01_pipe_s1_c_sp_a_ignore {"desc":"ignore_space where a sentence character shares its category with U+0020 and U+0000 (DEFAULT) while SPACE is another character: only the SPACE-category character may be skipped","bounds":"N=3 \"c<sp>a\"; dictionary S1 (U+0020 is DEFAULT like c)","symbolic":"costs, ids, matrix","functions":["Tokenizer::ignore_space","Tokenizer::build_lattice_inner","Lattice::insert_node","Lattice::append_top_nodes"],"fs":2048,"unwind":7,"timeout":2400,"mem_gb":24}
pipeline!(c01_pipe_s1_c_sp_a_ignore, S1, [C, SP, A], "\u{3}\u{4}\u{1}", true, 0, 2);
//@ c01_pipe_s1_abc {"tier":"thorough","core":false,"desc":"partition of \"abc\"","bounds":"N=3; dictionary S1","symbolic":"costs, ids, matrix","functions":["Worker::tokenize"],"fs":2048,"unwind":7,"timeout":2400,"mem_gb":24}
pipeline!(c01_pipe_s1_abc, S1, [A, B, C], "\u{1}\u{2}\u{3}", false, 0, 2);
//@ c01_pipe_s2_aba {"tier":"thorough","core":false,"desc":"partition of \"aba\" with user lexicon","bounds":"N=3; dictionary S2","symbolic":"costs, ids, matrix","functions":["Worker::tokenize"],"fs":2048,"unwind":8,"timeout":2400,"mem_gb":24}
pipeline!(c01_pipe_s2_aba, S2, [A, B, A], "\u{1}\u{2}\u{1}", false, 0, 2);

//@ c01_empty_string {"desc":"the empty string yields no tokens (also after a previous sentence)","bounds":"dictionary S1; history: tokenize(\"a\"), then \"\"","symbolic":"costs, ids, matrix","functions":["Worker::reset_sentence","Worker::tokenize","Worker::num_tokens"],"fs":2048,"unwind":6,"timeout":900,"covers":"none"}
#[cfg(kani)]
#[kani::proof]
fn c01_empty_string() {
    let tok_owned = tokenizer_of(&S1, false, 0);
    let tok = &tok_owned;
    let mut w = tok.new_worker();
    w.reset_sentence("");
    w.tokenize();
    assert!(w.num_tokens() == 0);
    assert!(w.token_iter().next().is_none());
    w.reset_sentence("\u{1}");
    w.tokenize();
    assert!(w.num_tokens() == 1);
    w.reset_sentence("");
    w.tokenize();
    assert!(w.num_tokens() == 0);
    core::mem::forget(w);
    core::mem::forget(tok_owned);
}

//@ c01_kf_category_without_unk_entries {"desc":"a character whose category has no unk.def entry and no lexicon match (accepted by the builder): tokenization must not panic","bounds":"N=1 \"c\"; dictionary S1 with 0 DEFAULT entries","symbolic":"costs, ids, matrix","functions":["Worker::tokenize","UnkHandler::gen_unk_words","Lattice::insert_eos","Lattice::append_top_nodes"],"fs":2048,"unwind":6,"timeout":600,"covers":"none"}
pipeline!(c01_kf_category_without_unk_entries, S_KF, [C], "\u{3}", false, 0, 1);

//@ c01_pipe_twin {"expect":"fail","desc":"vacuity twin: claims \"ab\" always yields one token","bounds":"N=2; S1","symbolic":"costs, ids, matrix","functions":["Worker::tokenize"],"fs":2048,"unwind":6,"timeout":900,"covers":"none"}
#[cfg(kani)]
#[kani::proof]
fn c01_pipe_twin() {
    let tok_owned = tokenizer_of(&S1, false, 0);
    let tok = &tok_owned;
    let mut w = tok.new_worker();
    w.reset_sentence("\u{1}\u{2}");
    w.tokenize();
    assert!(w.num_tokens() == 1, "VACUITY: two-token segmentations exist");
    core::mem::forget(w);
    core::mem::forget(tok_owned);
}
