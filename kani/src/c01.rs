//! C01: tokens partition the input text.
//!
//! Family 1: offset table and token accessors for fully symbolic Unicode scalars.
//! Family 2: the real pipeline through the public API on concrete sentences over concrete
//! dictionary structure with symbolic costs, ids and connection matrix.
use crate::util::*;
use crate::world::*;
use vibrato::dictionary::Dictionary;
use vibrato::tokenizer::Tokenizer;
use vibrato::verif_hooks::*;

// ---------------------------------------------------------------------------------------
// family 1
// ---------------------------------------------------------------------------------------
#[cfg(kani)]
fn offsets(n: usize) {
    let mut s = String::with_capacity(16);
    let mut cs = ['\0'; 3];
    for i in 0..n {
        let c: char = kani::any();
        cs[i] = c;
        s.push(c);
    }
    let mut table = Vec::with_capacity(5);
    for _ in 0..5 {
        table.push(CharInfo::verif_from_raw(kani::any()));
    }
    let prop = CharProperty::verif_from_parts(table, Vec::new());
    let mut sent = Sentence::new();
    sent.set_sentence(&s);
    sent.compile(&prop);
    assert!(sent.len_char() == n);
    let mut b = 0;
    for i in 0..n {
        assert!(sent.chars()[i] == cs[i]);
        assert!(sent.byte_position(i) == b);
        b += cs[i].len_utf8();
    }
    assert!(sent.byte_position(n) == b && b == s.len());
    assert!(sent.raw().len() == s.len());
    kani::cover!(n >= 2 && cs[0].len_utf8() == 4 && cs[1].len_utf8() == 1);
    kani::cover!(cs[n - 1].len_utf8() == 3);
    core::mem::forget(sent);
    core::mem::forget(prop);
    core::mem::forget(s);
}

//@ c01_offsets_n1 {"desc":"char-to-byte offset table for one arbitrary Unicode scalar","bounds":"N=1 character, any scalar value (1-4 byte UTF-8)","symbolic":"the character, the category table","functions":["Sentence::set_sentence","Sentence::compile","Sentence::compute_basic","Sentence::byte_position"],"unwind":6,"timeout":600,"covers":"any"}
#[cfg(kani)]
#[kani::proof]
fn c01_offsets_n1() {
    offsets(1)
}

//@ c01_offsets_n2 {"desc":"char-to-byte offset table for two arbitrary Unicode scalars (all width mixes, astral included)","bounds":"N=2 characters","symbolic":"both characters, the category table","functions":["Sentence::set_sentence","Sentence::compile","Sentence::compute_basic","Sentence::byte_position"],"unwind":6,"timeout":900}
#[cfg(kani)]
#[kani::proof]
fn c01_offsets_n2() {
    offsets(2)
}

//@ c01_offsets_n3 {"tier":"thorough","desc":"char-to-byte offset table for three arbitrary Unicode scalars","bounds":"N=3 characters","symbolic":"all characters, the category table","functions":["Sentence::set_sentence","Sentence::compile","Sentence::compute_basic","Sentence::byte_position"],"unwind":7,"timeout":1800}
#[cfg(kani)]
#[kani::proof]
fn c01_offsets_n3() {
    offsets(3)
}

const S_MIN: Spec = Spec { sys: L_A, user: None, cats: CATS_MIX, unk_mult: &[1, 1, 1], nr: 1, nl: 1 };

//@ c01_token_accessors {"desc":"Token::range_char/range_byte/surface agree with each other and with the input for an arbitrary stored node over an arbitrary 2-character sentence","bounds":"N=2 symbolic characters, one stored node with arbitrary start<end<=2","symbolic":"characters, node span","functions":["Token::range_char","Token::range_byte","Token::surface","Worker::token","Worker::num_tokens","Sentence::byte_position"],"unwind":6,"fs":2048,"timeout":900}
#[cfg(kani)]
#[kani::proof]
fn c01_token_accessors() {
    let tok_owned = tokenizer_of(&S_MIN, false, 0);
    let tok = &tok_owned;
    let mut w = tok.new_worker();
    let c0: char = kani::any();
    let c1: char = kani::any();
    let mut s = String::with_capacity(16);
    s.push(c0);
    s.push(c1);
    w.verif_sent_mut().set_sentence(&s);
    w.verif_sent_mut().verif_compute_basic();
    let start = any_below(2);
    let end: usize = kani::any();
    kani::assume(end > start && end <= 2);
    let mut nd = Node::default();
    nd.start_word = start;
    nd.start_node = start;
    w.verif_top_nodes_mut().push((end, nd));
    assert!(w.num_tokens() == 1);
    let t = w.token(0);
    let rc = t.range_char();
    assert!(rc.start == start && rc.end == end);
    let l0 = c0.len_utf8();
    let l1 = c1.len_utf8();
    let bs = if start == 0 { 0 } else { l0 };
    let be = if end == 1 { l0 } else { l0 + l1 };
    let rb = t.range_byte();
    assert!(rb.start == bs && rb.end == be);
    let sf = t.surface();
    assert!(sf.len() == be - bs);
    let mut it = sf.chars();
    let first = it.next();
    assert!(first == Some(if start == 0 { c0 } else { c1 }));
    kani::cover!(start == 0 && end == 2 && l0 == 4 && l1 == 2);
    core::mem::forget(w);
    core::mem::forget(tok_owned);
    core::mem::forget(s);
}

// ---------------------------------------------------------------------------------------
// family 2
// ---------------------------------------------------------------------------------------
macro_rules! pipeline {
    ($name:ident, $spec:expr, [$($c:expr),*], $text:expr, $ign:expr, $mg:expr, $cover:expr) => {
        #[cfg(kani)]
        #[kani::proof]
        fn $name() {
            let spec: Spec = $spec;
            let tok_owned = tokenizer_of(&spec, $ign, $mg);
    let tok = &tok_owned;
            let mut w = tok.new_worker();
            w.reset_sentence($text);
            if $ign {
                // `ignore_space(true)` hands the tokenizer back inside a `Result`; CBMC then no
                // longer sees the connector enum's discriminant as a constant and explores the
                // raw/dual arms of `build_lattice`'s dispatch.  Enter the matrix arm directly.
                w.verif_tokenize_with(matrix_of(tok.dictionary().verif_connector()));
            } else {
                w.tokenize();
            }
            let chars = [$($c),*];
            let nt = check_partition(&w, tok, &spec, &chars, $text, $ign);
            kani::cover!(nt == $cover);
            core::mem::forget(w);
            core::mem::forget(tok_owned);
        }
    };
}

const S1: Spec = Spec { sys: L_A_AB, user: None, cats: CATS_MIX, unk_mult: &[1, 1, 1], nr: 2, nl: 2 };
const S2: Spec = Spec { sys: L_A_B_AB, user: Some(L_AB), cats: CATS_CHAIN, unk_mult: &[2, 1, 1], nr: 3, nl: 2 };
const S3: Spec = Spec { sys: L_B, user: None, cats: CATS_DENSE, unk_mult: &[1, 2, 1], nr: 2, nl: 2 };
/// DEFAULT has no unk.def entry (accepted by the builder; the bundled test dictionary is like that)
const S_KF: Spec = Spec { sys: L_A_AB, user: None, cats: CATS_MIX, unk_mult: &[0, 1, 1], nr: 2, nl: 2 };

//@ c01_pipe_s1_ab {"desc":"partition of \"ab\" (lexicon a, ab; unknown invoked for letters)","bounds":"N=2; dictionary S1: words {a,ab}, 3 categories, 1 unk entry each, 2x2 matrix","symbolic":"all word/unk costs and ids, matrix cells","functions":["Worker::reset_sentence","Worker::tokenize","Tokenizer::build_lattice","Tokenizer::build_lattice_inner","Tokenizer::add_lattice_edges","Lattice::*","UnkHandler::gen_unk_words","Lexicon::common_prefix_iterator","Token::*"],"fs":2048,"unwind":6,"timeout":900}
pipeline!(c01_pipe_s1_ab, S1, [A, B], "\u{1}\u{2}", false, 0, 1);
//@ c01_pipe_s1_ca {"desc":"partition of \"ca\" (c is unknown-only, grouped DEFAULT)","bounds":"N=2; dictionary S1","symbolic":"costs, ids, matrix","functions":["Worker::reset_sentence","Worker::tokenize","Tokenizer::build_lattice_inner","UnkHandler::gen_unk_words","Lattice::*","Token::*"],"fs":2048,"unwind":6,"timeout":900}
pipeline!(c01_pipe_s1_ca, S1, [C, A], "\u{3}\u{1}", false, 0, 2);
//@ c01_pipe_s1_a_e9 {"desc":"partition of \"a\\u00e9\": 2-byte character absent from the table (DEFAULT)","bounds":"N=2; dictionary S1","symbolic":"costs, ids, matrix","functions":["Worker::reset_sentence","Worker::tokenize","Sentence::compile","CharProperty::char_info","Token::range_byte","Token::surface"],"fs":2048,"unwind":6,"timeout":900}
pipeline!(c01_pipe_s1_a_e9, S1, [A, '\u{e9}'], "\u{1}\u{e9}", false, 0, 2);
//@ c01_pipe_s1_astral_a {"desc":"partition of \"\\u1F600a\": astral-plane character first, byte offsets 0,4,5","bounds":"N=2; dictionary S1","symbolic":"costs, ids, matrix","functions":["Worker::reset_sentence","Worker::tokenize","Sentence::compile","Token::range_byte","Token::surface"],"fs":2048,"unwind":6,"timeout":900}
pipeline!(c01_pipe_s1_astral_a, S1, ['\u{1F600}', A], "\u{1F600}\u{1}", false, 0, 2);
//@ c01_pipe_s1_hira_b {"desc":"partition of \"\\u3042b\": 3-byte character absent from the table","bounds":"N=2; dictionary S1","symbolic":"costs, ids, matrix","functions":["Worker::reset_sentence","Worker::tokenize","Token::range_byte"],"fs":2048,"unwind":6,"timeout":900,"tier":"thorough"}
pipeline!(c01_pipe_s1_hira_b, S1, ['\u{3042}', B], "\u{3042}\u{2}", false, 0, 2);
//@ c01_pipe_s1_sp_noignore {"desc":"without ignore_space a SPACE character is tokenized like any other","bounds":"N=2 \"a<sp>\"; dictionary S1","symbolic":"costs, ids, matrix","functions":["Worker::tokenize","Tokenizer::build_lattice_inner"],"fs":2048,"unwind":6,"timeout":900}
pipeline!(c01_pipe_s1_sp_noignore, S1, [A, SP], "\u{1}\u{4}", false, 0, 2);
//@ c01_pipe_s1_a_sp_ignore {"desc":"ignore_space, trailing space: \"a<sp>\" -> gap at the end begins with SPACE","bounds":"N=2; dictionary S1","symbolic":"costs, ids, matrix","functions":["Tokenizer::ignore_space","Tokenizer::build_lattice_inner","Lattice::insert_eos","Lattice::append_top_nodes"],"fs":2048,"unwind":6,"timeout":900}
pipeline!(c01_pipe_s1_a_sp_ignore, S1, [A, SP], "\u{1}\u{4}", true, 0, 1);
//@ c01_pipe_s1_sp_a_ignore {"desc":"ignore_space, leading space: \"<sp>a\"","bounds":"N=2; dictionary S1","symbolic":"costs, ids, matrix","functions":["Tokenizer::ignore_space","Tokenizer::build_lattice_inner"],"fs":2048,"unwind":6,"timeout":900}
pipeline!(c01_pipe_s1_sp_a_ignore, S1, [SP, A], "\u{4}\u{1}", true, 0, 1);
//@ c01_pipe_s1_spaces_only {"desc":"ignore_space, spaces only: no tokens","bounds":"N=2 \"<sp><sp>\"; dictionary S1","symbolic":"costs, ids, matrix","functions":["Tokenizer::build_lattice_inner","Lattice::insert_eos","Lattice::append_top_nodes"],"fs":2048,"unwind":6,"timeout":900}
pipeline!(c01_pipe_s1_spaces_only, S1, [SP, SP], "\u{4}\u{4}", true, 0, 0);
//@ c01_pipe_s2_ab_user {"desc":"partition of \"ab\" with a user lexicon holding a homograph of a system word","bounds":"N=2; dictionary S2: system {a,b,ab}, user {ab}, chained categories, 2/1/1 unk entries, 3x2 matrix","symbolic":"costs, ids, matrix","functions":["Tokenizer::add_lattice_edges","Dictionary::word_feature","Dictionary::word_param","Token::lex_type"],"fs":2048,"unwind":7,"timeout":900}
pipeline!(c01_pipe_s2_ab_user, S2, [A, B], "\u{1}\u{2}", false, 0, 1);
//@ c01_pipe_s2_bc {"desc":"partition of \"bc\": b belongs to two categories and chains with c","bounds":"N=2; dictionary S2","symbolic":"costs, ids, matrix","functions":["Sentence::compute_groupable","UnkHandler::gen_unk_words","Tokenizer::add_lattice_edges"],"fs":2048,"unwind":7,"timeout":900}
pipeline!(c01_pipe_s2_bc, S2, [B, C], "\u{2}\u{3}", false, 0, 1);
//@ c01_pipe_s3_aa_dense {"desc":"partition of \"aa\" where only unknown words exist for a (two entries per candidate)","bounds":"N=2; dictionary S3: system {b}, dense categories, 1/2/1 unk entries","symbolic":"costs, ids, matrix","functions":["UnkHandler::gen_unk_words","UnkHandler::scan_entries","Lattice::insert_node"],"fs":2048,"unwind":7,"timeout":900}
pipeline!(c01_pipe_s3_aa_dense, S3, [A, A], "\u{1}\u{1}", false, 0, 1);
//@ c01_pipe_s1_cc_maxgroup1 {"desc":"max_grouping_len=1 with a grouped run of 2","bounds":"N=2 \"cc\"; dictionary S1","symbolic":"costs, ids, matrix","functions":["Tokenizer::max_grouping_len","UnkHandler::gen_unk_words"],"fs":2048,"unwind":6,"timeout":900}
pipeline!(c01_pipe_s1_cc_maxgroup1, S1, [C, C], "\u{3}\u{3}", false, 1, 1);
//@ c01_pipe_s1_a {"desc":"partition of a single character","bounds":"N=1; dictionary S1","symbolic":"costs, ids, matrix","functions":["Worker::reset_sentence","Worker::tokenize"],"fs":2048,"unwind":6,"timeout":600}
pipeline!(c01_pipe_s1_a, S1, [A], "\u{1}", false, 0, 1);

//@ c01_pipe_s1_ccc_maxgroup1 {"tier":"thorough","core":false,"desc":"max_grouping_len=1 with a grouped run of 3: the run is omitted and single characters are produced","bounds":"N=3 \"ccc\"; dictionary S1","symbolic":"costs, ids, matrix","functions":["Tokenizer::max_grouping_len","UnkHandler::gen_unk_words"],"fs":2048,"unwind":7,"timeout":2400,"mem_gb":24}
pipeline!(c01_pipe_s1_ccc_maxgroup1, S1, [C, C, C], "\u{3}\u{3}\u{3}", false, 1, 3);
//@ c01_pipe_s1_a_sp_b_ignore {"desc":"ignore_space, inner gap: \"a<sp>b\"","bounds":"N=3; dictionary S1","symbolic":"costs, ids, matrix","functions":["Tokenizer::build_lattice_inner","Lattice::insert_node","Lattice::append_top_nodes"],"fs":2048,"unwind":7,"timeout":2400,"mem_gb":24}
pipeline!(c01_pipe_s1_a_sp_b_ignore, S1, [A, SP, B], "\u{1}\u{4}\u{2}", true, 0, 2);
//@ c01_pipe_s1_abc {"tier":"thorough","core":false,"desc":"partition of \"abc\"","bounds":"N=3; dictionary S1","symbolic":"costs, ids, matrix","functions":["Worker::tokenize"],"fs":2048,"unwind":7,"timeout":2400,"mem_gb":24}
pipeline!(c01_pipe_s1_abc, S1, [A, B, C], "\u{1}\u{2}\u{3}", false, 0, 2);
//@ c01_pipe_s2_aba {"tier":"thorough","core":false,"desc":"partition of \"aba\" with user lexicon","bounds":"N=3; dictionary S2","symbolic":"costs, ids, matrix","functions":["Worker::tokenize"],"fs":2048,"unwind":8,"timeout":2400,"mem_gb":24}
pipeline!(c01_pipe_s2_aba, S2, [A, B, A], "\u{1}\u{2}\u{1}", false, 0, 2);

//@ c01_empty_string {"desc":"the empty string yields no tokens (also after a previous sentence)","bounds":"dictionary S1; history: tokenize(\"a\"), then \"\"","symbolic":"costs, ids, matrix","functions":["Worker::reset_sentence","Worker::tokenize","Worker::num_tokens"],"fs":2048,"unwind":6,"timeout":900,"covers":"none"}
#[cfg(kani)]
#[kani::proof]
fn c01_empty_string() {
    let tok_owned = tokenizer_of(&S1, false, 0);
    let tok = &tok_owned;
    let mut w = tok.new_worker();
    w.reset_sentence("");
    w.tokenize();
    assert!(w.num_tokens() == 0);
    assert!(w.token_iter().next().is_none());
    w.reset_sentence("\u{1}");
    w.tokenize();
    assert!(w.num_tokens() == 1);
    w.reset_sentence("");
    w.tokenize();
    assert!(w.num_tokens() == 0);
    core::mem::forget(w);
    core::mem::forget(tok_owned);
}

//@ c01_kf_category_without_unk_entries {"desc":"a character whose category has no unk.def entry and no lexicon match (accepted by the builder): tokenization must not panic","bounds":"N=1 \"c\"; dictionary S1 with 0 DEFAULT entries","symbolic":"costs, ids, matrix","functions":["Worker::tokenize","UnkHandler::gen_unk_words","Lattice::insert_eos","Lattice::append_top_nodes"],"fs":2048,"unwind":6,"timeout":600,"covers":"none"}
pipeline!(c01_kf_category_without_unk_entries, S_KF, [C], "\u{3}", false, 0, 1);

//@ c01_pipe_twin {"expect":"fail","desc":"vacuity twin: claims \"ab\" always yields one token","bounds":"N=2; S1","symbolic":"costs, ids, matrix","functions":["Worker::tokenize"],"fs":2048,"unwind":6,"timeout":900,"covers":"none"}
#[cfg(kani)]
#[kani::proof]
fn c01_pipe_twin() {
    let tok_owned = tokenizer_of(&S1, false, 0);
    let tok = &tok_owned;
    let mut w = tok.new_worker();
    w.reset_sentence("\u{1}\u{2}");
    w.tokenize();
    assert!(w.num_tokens() == 1, "VACUITY: two-token segmentations exist");
    core::mem::forget(w);
    core::mem::forget(tok_owned);
}
