//! C02: the reported segmentation is a minimum-cost path.
//!
//! Two layers.  (1) Inductive steps from an *arbitrary* boundary state: `search_min_node`
//! returns an arg-min over all nodes ending at the boundary, `insert_node` / `insert_eos` store
//! exactly that minimum plus the word cost.  (2) Whole lattices of a concrete shape with
//! symbolic costs/ids/matrix, built with the real `Lattice` functions in the order
//! `build_lattice_inner` uses, compared against an arbitrary competing chain chosen by the solver.
use crate::util::*;
use vibrato::verif_hooks::*;

/// Bound on |min_cost| of pre-existing nodes: the property's "within 32-bit range" proviso.
const COST_BOUND: i32 = 1 << 28;

#[cfg(kani)]
fn arbitrary_node(nr: usize, nl: usize) -> Node {
    let min_cost: i32 = kani::any();
    kani::assume(min_cost > -COST_BOUND && min_cost < COST_BOUND);
    Node {
        word_id: kani::any(),
        lex_type: LexType::System,
        start_node: 0,
        start_word: 0,
        left_id: any_below_u16(nl),
        right_id: any_below_u16(nr),
        min_idx: kani::any(),
        min_cost,
    }
}

/// A lattice for a 2-character sentence whose boundary 1 holds `m` arbitrary nodes.
#[cfg(kani)]
fn lattice_with_boundary(m: usize, nr: usize, nl: usize) -> Lattice {
    let mut lat = Lattice::default();
    lat.reset(2);
    for _ in 0..m {
        let nd = arbitrary_node(nr, nl);
        lat.verif_ends_mut()[1].push(nd);
    }
    lat
}

#[cfg(kani)]
fn search_min_step(m: usize) {
    let (nr, nl) = (3, 3);
    let conn = sym_matrix(nr, nl);
    let lat = lattice_with_boundary(m, nr, nl);
    let left = any_below_u16(nl);
    let (idx, cost) = lat.verif_search_min_node(1, left, &conn);
    let b = &lat.verif_ends()[1];
    assert!((idx as usize) < m);
    let chosen = &b[idx as usize];
    assert!(cost == chosen.min_cost + conn.cost(chosen.right_id, left));
    for j in 0..m {
        assert!(cost <= b[j].min_cost + conn.cost(b[j].right_id, left));
    }
    kani::cover!(m > 1 && idx == 0);
    kani::cover!(idx as usize == m - 1);
    core::mem::forget(lat);
}

//@ c02_search_min_m1 {"desc":"search_min_node over a boundary of 1 arbitrary node","bounds":"M=1 node, 3x3 matrix, |prefix cost|<2^28","symbolic":"node costs/ids, matrix cells, left id","functions":["Lattice::search_min_node","MatrixConnector::cost"],"fs":2048,"unwind":5,"timeout":300,"covers":"any"}
#[cfg(kani)]
#[kani::proof]
fn c02_search_min_m1() {
    search_min_step(1)
}

//@ c02_search_min_m3 {"desc":"search_min_node returns an arg-min over a boundary of 3 arbitrary nodes (Bellman step from an arbitrary state)","bounds":"M=3 nodes, 3x3 matrix, |prefix cost|<2^28","symbolic":"node costs/ids, matrix cells, left id","functions":["Lattice::search_min_node","MatrixConnector::cost"],"fs":2048,"unwind":5,"timeout":300}
#[cfg(kani)]
#[kani::proof]
fn c02_search_min_m3() {
    search_min_step(3)
}

//@ c02_search_min_m4 {"tier":"thorough","desc":"search_min_node arg-min over 4 arbitrary nodes","bounds":"M=4 nodes, 3x3 matrix","symbolic":"node costs/ids, matrix cells, left id","functions":["Lattice::search_min_node","MatrixConnector::cost"],"fs":2048,"unwind":6,"timeout":600}
#[cfg(kani)]
#[kani::proof]
fn c02_search_min_m4() {
    search_min_step(4)
}

//@ c02_search_min_twin {"expect":"fail","desc":"vacuity twin of the Bellman step: claims strict minimality, must be refuted","bounds":"M=3","symbolic":"as c02_search_min_m3","functions":["Lattice::search_min_node"],"fs":2048,"unwind":5,"timeout":300,"covers":"none"}
#[cfg(kani)]
#[kani::proof]
fn c02_search_min_twin() {
    let (nr, nl) = (3, 3);
    let conn = sym_matrix(nr, nl);
    let lat = lattice_with_boundary(3, nr, nl);
    let left = any_below_u16(nl);
    let (idx, cost) = lat.verif_search_min_node(1, left, &conn);
    let b = &lat.verif_ends()[1];
    for j in 0..3 {
        if j != idx as usize {
            assert!(cost < b[j].min_cost + conn.cost(b[j].right_id, left), "VACUITY: ties exist");
        }
    }
    core::mem::forget(lat);
}

//@ c02_insert_node_step {"desc":"insert_node from an arbitrary boundary: the stored node carries the given ids/word and min_cost = min over predecessors + word cost, back-pointer names a minimiser","bounds":"M=3 predecessors, 3x3 matrix","symbolic":"predecessor nodes, matrix, inserted word parameters, word id, lexicon type","functions":["Lattice::insert_node","Lattice::search_min_node","MatrixConnector::cost"],"fs":2048,"unwind":5,"timeout":300}
#[cfg(kani)]
#[kani::proof]
fn c02_insert_node_step() {
    let (nr, nl) = (3, 3);
    let conn = sym_matrix(nr, nl);
    let mut lat = lattice_with_boundary(3, nr, nl);
    let p = sym_param(nr, nl);
    let wid: u32 = kani::any();
    let lt = if kani::any() { LexType::User } else { LexType::Unknown };
    lat.insert_node(1, 1, 2, WordIdx { lex_type: lt, word_id: wid }, p, &conn);
    let ends = lat.verif_ends();
    assert!(ends[2].len() == 1 && ends[1].len() == 3 && ends[0].len() == 1);
    let nd = &ends[2][0];
    assert!(nd.word_id == wid && nd.lex_type == lt);
    assert!(nd.start_node == 1 && nd.start_word == 1);
    assert!(nd.left_id == p.left_id && nd.right_id == p.right_id);
    assert!((nd.min_idx as usize) < 3);
    let pred = &ends[1][nd.min_idx as usize];
    let best = pred.min_cost + conn.cost(pred.right_id, p.left_id);
    assert!(nd.min_cost == best + i32::from(p.word_cost));
    for j in 0..3 {
        assert!(best <= ends[1][j].min_cost + conn.cost(ends[1][j].right_id, p.left_id));
    }
    kani::cover!(nd.min_idx == 1);
    core::mem::forget(lat);
}

//@ c02_insert_eos_step {"desc":"insert_eos from an arbitrary boundary: EOS connects with left id 0 to a minimiser including the connection cost to id 0","bounds":"M=3 predecessors, 3x3 matrix","symbolic":"predecessor nodes, matrix","functions":["Lattice::insert_eos","Lattice::search_min_node","MatrixConnector::cost"],"fs":2048,"unwind":5,"timeout":300}
#[cfg(kani)]
#[kani::proof]
fn c02_insert_eos_step() {
    let (nr, nl) = (3, 3);
    let conn = sym_matrix(nr, nl);
    let mut lat = lattice_with_boundary(3, nr, nl);
    lat.insert_eos(1, &conn);
    let eos = lat.verif_eos().unwrap();
    let b = &lat.verif_ends()[1];
    assert!(eos.start_node == 1 && eos.left_id == 0);
    assert!((eos.min_idx as usize) < 3);
    let pred = &b[eos.min_idx as usize];
    assert!(eos.min_cost == pred.min_cost + conn.cost(pred.right_id, 0));
    for j in 0..3 {
        assert!(eos.min_cost <= b[j].min_cost + conn.cost(b[j].right_id, 0));
    }
    kani::cover!(eos.min_idx == 2);
    kani::cover!(eos.min_idx == 0);
    core::mem::forget(lat);
}

// ---------------------------------------------------------------------------------------
// whole shapes
// ---------------------------------------------------------------------------------------

/// One candidate of a shape: the boundary it connects to, where its word starts and ends.
#[derive(Clone, Copy)]
pub struct Span {
    pub start_node: usize,
    pub start_word: usize,
    pub end: usize,
}

pub const fn sp(s: usize, e: usize) -> Span {
    Span { start_node: s, start_word: s, end: e }
}

pub const fn spg(sn: usize, sw: usize, e: usize) -> Span {
    Span { start_node: sn, start_word: sw, end: e }
}

/// Builds the lattice of the shape with the real functions, in the order the tokenizer uses
/// (increasing start boundary, unreachable boundaries skipped).  Oracle, written with concrete
/// indices only: a reference recurrence over the candidates (the definition of the cheapest
/// chain ending in each candidate), compared with every stored node, with EOS, and with the
/// path that `append_top_nodes` reports.
#[cfg(kani)]
pub fn viterbi_shape<C: ConnectorCost, const K: usize>(
    conn: &C,
    nr: usize,
    nl: usize,
    n: usize,
    eos_start: usize,
    spans: &[Span; K],
    want_tokens: usize,
) {
    let mut params = [WordParam::default(); K];
    for i in 0..K {
        params[i] = sym_param(nr, nl);
    }
    let mut lat = Lattice::default();
    lat.reset(n);
    for start in 0..n {
        if !lat.has_previous_node(start) {
            continue;
        }
        for i in 0..K {
            let s = spans[i];
            if s.start_node == start {
                lat.insert_node(
                    s.start_node,
                    s.start_word,
                    s.end,
                    WordIdx { lex_type: LexType::System, word_id: i as u32 },
                    params[i],
                    conn,
                );
            }
        }
    }
    lat.insert_eos(eos_start, conn);

    // reference: cheapest chain from BOS ending with candidate i (spans are sorted by start)
    let mut reach = [false; K];
    let mut best = [0i32; K];
    for i in 0..K {
        let mut have = false;
        let mut b = 0i32;
        if spans[i].start_node == 0 {
            have = true;
            b = conn.cost(0, params[i].left_id);
        }
        for j in 0..K {
            if spans[j].end == spans[i].start_node && reach[j] {
                let c = best[j] + conn.cost(params[j].right_id, params[i].left_id);
                if !have || c < b {
                    have = true;
                    b = c;
                }
            }
        }
        reach[i] = have;
        best[i] = b + i32::from(params[i].word_cost);
    }
    let mut eos_have = false;
    let mut eos_ref = 0i32;
    for j in 0..K {
        if spans[j].end == eos_start && reach[j] {
            let c = best[j] + conn.cost(params[j].right_id, 0);
            if !eos_have || c < eos_ref {
                eos_have = true;
                eos_ref = c;
            }
        }
    }
    assert!(eos_have); // shape precondition: the end is reachable

    // every stored node holds the reference minimum of its candidate (dump, concrete positions)
    let ends = lat.verif_ends();
    let mut seen = [0usize; 8];
    for i in 0..K {
        if reach[i] {
            let e = spans[i].end;
            let nd = &ends[e][seen[e]];
            seen[e] += 1;
            assert!(nd.word_id == i as u32);
            assert!(nd.min_cost == best[i], "stored prefix cost is not the minimum over all chains");
            assert!(nd.left_id == params[i].left_id && nd.right_id == params[i].right_id);
            assert!(nd.start_node == spans[i].start_node && nd.start_word == spans[i].start_word);
        }
    }
    for e in 1..=n {
        assert!(ends[e].len() == seen[e]);
    }
    let eos_cost = lat.verif_eos().unwrap().min_cost;
    assert!(eos_cost == eos_ref, "EOS cost is not the minimum over all segmentations");

    kani::cover!(reach[K - 1]);
    let _ = want_tokens;
    core::mem::forget(lat);
}

/// Path reporting: `append_top_nodes` on the lattice of the shape yields a linked chain from 0
/// to the EOS boundary whose per-token `min_cost` (Token::total_cost) is the accumulated
/// connection + word cost of exactly that chain, and whose end cost is the EOS minimum.
#[cfg(kani)]
pub fn path_shape<C: ConnectorCost, const K: usize>(
    conn: &C,
    nr: usize,
    nl: usize,
    n: usize,
    eos_start: usize,
    spans: &[Span; K],
    want_tokens: usize,
) {
    let mut params = [WordParam::default(); K];
    for i in 0..K {
        params[i] = sym_param(nr, nl);
    }
    let mut lat = Lattice::default();
    lat.reset(n);
    for start in 0..n {
        if !lat.has_previous_node(start) {
            continue;
        }
        for i in 0..K {
            let s = spans[i];
            if s.start_node == start {
                lat.insert_node(s.start_node, s.start_word, s.end,
                    WordIdx { lex_type: LexType::System, word_id: i as u32 }, params[i], conn);
            }
        }
    }
    lat.insert_eos(eos_start, conn);
    let eos_cost = lat.verif_eos().unwrap().min_cost;
    let mut top: Vec<(usize, Node)> = Vec::with_capacity(n);
    lat.append_top_nodes(&mut top);
    let t = top.len();
    assert!(t >= 1 && t <= n);
    let mut acc: i32 = 0;
    let mut prev_right: u16 = 0;
    let mut prev_end = 0usize;
    // top is stored EOS-to-BOS: walk the indices downwards (concrete), guarded by the length
    let mut idx = n;
    while idx > 0 {
        idx -= 1;
        if idx < t {
            let (end, nd) = &top[idx];
            assert!(nd.start_node == prev_end);
            assert!(*end > nd.start_word && nd.start_word >= nd.start_node);
            let mut matched = false;
            for i in 0..K {
                if nd.word_id == i as u32 {
                    matched = true;
                    assert!(spans[i].end == *end && spans[i].start_node == nd.start_node);
                    assert!(spans[i].start_word == nd.start_word);
                    assert!(nd.left_id == params[i].left_id && nd.right_id == params[i].right_id);
                    acc += conn.cost(prev_right, nd.left_id) + i32::from(params[i].word_cost);
                }
            }
            assert!(matched);
            assert!(nd.min_cost == acc, "total_cost is not the accumulated cost of the reported path");
            prev_right = nd.right_id;
            prev_end = *end;
        }
    }
    assert!(prev_end == eos_start);
    assert!(eos_cost == acc + conn.cost(prev_right, 0));
    kani::cover!(t == want_tokens);
    core::mem::forget(lat);
    core::mem::forget(top);
}

/// The same claim stated against an arbitrary competing chain picked by the solver (no
/// reference recurrence): nothing that can be formed from the candidates is strictly cheaper.
#[cfg(kani)]
pub fn viterbi_vs_arbitrary_chain<C: ConnectorCost, const K: usize>(
    conn: &C,
    nr: usize,
    nl: usize,
    n: usize,
    eos_start: usize,
    spans: &[Span; K],
) {
    let mut params = [WordParam::default(); K];
    for i in 0..K {
        params[i] = sym_param(nr, nl);
    }
    let mut lat = Lattice::default();
    lat.reset(n);
    for start in 0..n {
        if !lat.has_previous_node(start) {
            continue;
        }
        for i in 0..K {
            let s = spans[i];
            if s.start_node == start {
                lat.insert_node(s.start_node, s.start_word, s.end,
                    WordIdx { lex_type: LexType::System, word_id: i as u32 }, params[i], conn);
            }
        }
    }
    lat.insert_eos(eos_start, conn);
    let eos_cost = lat.verif_eos().unwrap().min_cost;
    let m: usize = kani::any();
    kani::assume(m >= 1 && m <= n);
    let mut alt: i32 = 0;
    let mut pr: u16 = 0;
    let mut pe = 0usize;
    for j in 0..n {
        if j < m {
            let c = any_below(K);
            let mut left = 0u16;
            let mut right = 0u16;
            let mut wc = 0i16;
            let mut sn = usize::MAX;
            let mut en = 0usize;
            for i in 0..K {
                if c == i {
                    left = params[i].left_id;
                    right = params[i].right_id;
                    wc = params[i].word_cost;
                    sn = spans[i].start_node;
                    en = spans[i].end;
                }
            }
            kani::assume(sn == pe);
            alt += conn.cost(pr, left) + i32::from(wc);
            pr = right;
            pe = en;
        }
    }
    kani::assume(pe == eos_start);
    alt += conn.cost(pr, 0);
    assert!(eos_cost <= alt, "a competing segmentation is strictly cheaper");
    kani::cover!(m == n);
    kani::cover!(m == 1);
    core::mem::forget(lat);
}

const N2_FULL: [Span; 3] = [sp(0, 1), sp(0, 2), sp(1, 2)];
const N2_HOMO: [Span; 5] = [sp(0, 1), sp(0, 1), sp(0, 2), sp(1, 2), sp(1, 2)];
const N3_FULL: [Span; 6] = [sp(0, 1), sp(0, 2), sp(0, 3), sp(1, 2), sp(1, 3), sp(2, 3)];
const N3_CHAIN: [Span; 4] = [sp(0, 1), sp(0, 2), sp(1, 3), sp(2, 3)];
/// "a _ b" with ignore_space: the word after the gap starts at 2 but connects to boundary 1
const N3_GAP: [Span; 4] = [sp(0, 1), sp(0, 1), spg(1, 2, 3), spg(1, 2, 3)];
/// "a b _" trailing space: EOS connects from boundary 2 although the sentence has 3 chars
const N3_TRAIL: [Span; 3] = [sp(0, 1), sp(0, 2), sp(1, 2)];
const N4_MIX: [Span; 7] = [sp(0, 1), sp(0, 2), sp(1, 2), sp(1, 3), sp(2, 3), sp(2, 4), sp(3, 4)];

//@ c02_shape_n2_full {"desc":"optimality on the full 2-character lattice (3 spans)","bounds":"N=2, spans {01,02,12}, 2x2 matrix, any i16 costs","symbolic":"word costs, left/right ids, matrix cells, competing chain","functions":["Lattice::reset","Lattice::insert_node","Lattice::search_min_node","Lattice::insert_eos","Lattice::append_top_nodes","Lattice::has_previous_node","MatrixConnector::cost"],"fs":2048,"unwind":5,"timeout":300}
#[cfg(kani)]
#[kani::proof]
fn c02_shape_n2_full() {
    let conn = sym_matrix(2, 2);
    viterbi_shape(&conn, 2, 2, 2, 2, &N2_FULL, 2);
}

//@ c02_shape_n2_homographs {"desc":"optimality with two homographs per single-character span (ties and duplicates)","bounds":"N=2, 5 candidates, 2x2 matrix","symbolic":"word costs, ids, matrix, competing chain","functions":["Lattice::insert_node","Lattice::search_min_node","Lattice::insert_eos","Lattice::append_top_nodes","MatrixConnector::cost"],"fs":2048,"unwind":7,"timeout":600}
#[cfg(kani)]
#[kani::proof]
fn c02_shape_n2_homographs() {
    let conn = sym_matrix(2, 2);
    viterbi_shape(&conn, 2, 2, 2, 2, &N2_HOMO, 1);
}

//@ c02_shape_n3_chain {"desc":"optimality on a 3-character lattice with 4 spans","bounds":"N=3, spans {01,02,13,23}, 2x2 matrix","symbolic":"word costs, ids, matrix, competing chain","functions":["Lattice::insert_node","Lattice::search_min_node","Lattice::insert_eos","Lattice::append_top_nodes","MatrixConnector::cost"],"fs":2048,"unwind":6,"timeout":600}
#[cfg(kani)]
#[kani::proof]
fn c02_shape_n3_chain() {
    let conn = sym_matrix(2, 2);
    viterbi_shape(&conn, 2, 2, 3, 3, &N3_CHAIN, 2);
}

//@ c02_shape_n3_gap {"desc":"optimality across an ignored space: the word after the gap connects to the nodes ending before it (start_node != start_word)","bounds":"N=3, 4 candidates, 2x2 matrix","symbolic":"word costs, ids, matrix, competing chain","functions":["Lattice::insert_node","Lattice::search_min_node","Lattice::insert_eos","Lattice::append_top_nodes","MatrixConnector::cost"],"fs":2048,"unwind":6,"timeout":600}
#[cfg(kani)]
#[kani::proof]
fn c02_shape_n3_gap() {
    let conn = sym_matrix(2, 2);
    viterbi_shape(&conn, 2, 2, 3, 3, &N3_GAP, 2);
}

//@ c02_shape_n3_trailing {"desc":"optimality when EOS attaches to an inner boundary (trailing ignored spaces)","bounds":"N=3, EOS from boundary 2, 3 spans, 3x3 matrix","symbolic":"word costs, ids, matrix, competing chain","functions":["Lattice::insert_node","Lattice::insert_eos","Lattice::append_top_nodes","MatrixConnector::cost"],"fs":2048,"unwind":6,"timeout":600}
#[cfg(kani)]
#[kani::proof]
fn c02_shape_n3_trailing() {
    let conn = sym_matrix(3, 3);
    viterbi_shape(&conn, 3, 3, 3, 2, &N3_TRAIL, 2);
}

//@ c02_shape_n3_full {"desc":"optimality on the full 3-character lattice (all 6 spans)","bounds":"N=3, 6 spans, 2x2 matrix","symbolic":"word costs, ids, matrix, competing chain","functions":["Lattice::insert_node","Lattice::search_min_node","Lattice::insert_eos","Lattice::append_top_nodes","MatrixConnector::cost"],"fs":2048,"unwind":8,"timeout":1500}
#[cfg(kani)]
#[kani::proof]
fn c02_shape_n3_full() {
    let conn = sym_matrix(2, 2);
    viterbi_shape(&conn, 2, 2, 3, 3, &N3_FULL, 3);
}

//@ c02_shape_n4_mix {"tier":"thorough","core":false,"desc":"optimality on a 4-character lattice with 7 overlapping spans","bounds":"N=4, 7 spans, 2x2 matrix","symbolic":"word costs, ids, matrix, competing chain","functions":["Lattice::insert_node","Lattice::search_min_node","Lattice::insert_eos","Lattice::append_top_nodes","MatrixConnector::cost"],"fs":2048,"unwind":9,"timeout":1800}
#[cfg(kani)]
#[kani::proof]
fn c02_shape_n4_mix() {
    let conn = sym_matrix(2, 2);
    viterbi_shape(&conn, 2, 2, 4, 4, &N4_MIX, 3);
}

//@ c02_path_n2_full {"desc":"append_top_nodes reports a linked chain whose total_cost accumulates connection+word costs and ends at the EOS minimum (full 2-character lattice)","bounds":"N=2, 3 spans, 2x2 matrix","symbolic":"word costs, ids, matrix","functions":["Lattice::append_top_nodes","Lattice::insert_node","Lattice::insert_eos","MatrixConnector::cost"],"fs":2048,"unwind":5,"timeout":600}
#[cfg(kani)]
#[kani::proof]
fn c02_path_n2_full() {
    let conn = sym_matrix(2, 2);
    path_shape(&conn, 2, 2, 2, 2, &N2_FULL, 1);
}

//@ c02_path_n3_gap {"tier":"thorough","core":false,"desc":"path reporting across an ignored space (start_node != start_word)","bounds":"N=3, 4 candidates, 2x2 matrix","symbolic":"word costs, ids, matrix","functions":["Lattice::append_top_nodes","Lattice::insert_node","Lattice::insert_eos"],"fs":2048,"unwind":6,"timeout":1800,"mem_gb":24}
#[cfg(kani)]
#[kani::proof]
fn c02_path_n3_gap() {
    let conn = sym_matrix(2, 2);
    path_shape(&conn, 2, 2, 3, 3, &N3_GAP, 2);
}

//@ c02_path_n3_chain {"tier":"thorough","core":false,"desc":"path reporting on a 3-character lattice","bounds":"N=3, 4 spans, 2x2 matrix","symbolic":"word costs, ids, matrix","functions":["Lattice::append_top_nodes","Lattice::insert_node","Lattice::insert_eos"],"fs":2048,"unwind":6,"timeout":1800,"mem_gb":24}
#[cfg(kani)]
#[kani::proof]
fn c02_path_n3_chain() {
    let conn = sym_matrix(2, 2);
    path_shape(&conn, 2, 2, 3, 3, &N3_CHAIN, 2);
}

//@ c02_chain_n2_full {"desc":"no chain of candidates picked by the solver is cheaper than the reported EOS cost (full 2-character lattice)","bounds":"N=2, 3 spans, 2x2 matrix","symbolic":"word costs, ids, matrix, the competing chain itself","functions":["Lattice::insert_node","Lattice::search_min_node","Lattice::insert_eos","MatrixConnector::cost"],"fs":2048,"unwind":5,"timeout":600}
#[cfg(kani)]
#[kani::proof]
fn c02_chain_n2_full() {
    let conn = sym_matrix(2, 2);
    viterbi_vs_arbitrary_chain(&conn, 2, 2, 2, 2, &N2_FULL);
}

//@ c02_chain_n3_full {"tier":"thorough","desc":"no chain of candidates picked by the solver is cheaper than the reported EOS cost (full 3-character lattice)","bounds":"N=3, 6 spans, 2x2 matrix","symbolic":"word costs, ids, matrix, the competing chain itself","functions":["Lattice::insert_node","Lattice::search_min_node","Lattice::insert_eos","MatrixConnector::cost"],"fs":2048,"unwind":8,"timeout":1800}
#[cfg(kani)]
#[kani::proof]
fn c02_chain_n3_full() {
    let conn = sym_matrix(2, 2);
    viterbi_vs_arbitrary_chain(&conn, 2, 2, 3, 3, &N3_FULL);
}

//@ c02_shape_twin {"expect":"fail","desc":"vacuity twin: claims the reported path is strictly cheaper than every other chain; must be refuted (ties exist)","bounds":"N=2 full","symbolic":"as c02_shape_n2_full","functions":["Lattice::insert_node","Lattice::insert_eos"],"fs":2048,"unwind":5,"timeout":300,"covers":"none"}
#[cfg(kani)]
#[kani::proof]
fn c02_shape_twin() {
    let conn = sym_matrix(2, 2);
    let p0 = sym_param(2, 2);
    let p1 = sym_param(2, 2);
    let p2 = sym_param(2, 2);
    let mut lat = Lattice::default();
    lat.reset(2);
    lat.insert_node(0, 0, 1, WordIdx { lex_type: LexType::System, word_id: 0 }, p0, &conn);
    lat.insert_node(0, 0, 2, WordIdx { lex_type: LexType::System, word_id: 1 }, p1, &conn);
    lat.insert_node(1, 1, 2, WordIdx { lex_type: LexType::System, word_id: 2 }, p2, &conn);
    lat.insert_eos(2, &conn);
    let eos = lat.verif_eos().unwrap().min_cost;
    let one = conn.cost(0, p1.left_id) + i32::from(p1.word_cost) + conn.cost(p1.right_id, 0);
    let two = conn.cost(0, p0.left_id) + i32::from(p0.word_cost) + conn.cost(p0.right_id, p2.left_id)
        + i32::from(p2.word_cost) + conn.cost(p2.right_id, 0);
    assert!(eos < one || eos < two, "VACUITY: the minimum is attained");
    core::mem::forget(lat);
}


// one instantiation of the generic lattice code per connector kind (the generic functions are
// monomorphised: `Lattice::insert_node::<RawConnector>` is different compiled code)
//@ c02_shape_n2_raw {"tier":"thorough","core":false,"desc":"optimality on the full 2-character lattice with the raw (bigram feature) connector","bounds":"N=2, 3 spans, raw connector 2x2 ids, 3 templates, scorer 3 bases/4 cells, |cost|<2^20","symbolic":"word costs, ids, feature rows, scorer arrays","functions":["Lattice::insert_node::<RawConnector>","Lattice::search_min_node::<RawConnector>","Lattice::insert_eos::<RawConnector>","RawConnector::cost","Scorer::accumulate_cost"],"fs":2048,"unwind":10,"timeout":2400,"mem_gb":24}
#[cfg(kani)]
#[kani::proof]
fn c02_shape_n2_raw() {
    let conn = sym_raw_connector(2, 2);
    viterbi_shape(&conn, 2, 2, 2, 2, &N2_FULL, 2);
}

//@ c02_shape_n2_dual {"tier":"thorough","desc":"optimality on the full 2-character lattice with the dual connector","bounds":"N=2, 3 spans, dual connector 2x2 ids, 2x2 class matrix, 8 raw lanes","symbolic":"word costs, ids, class maps, matrix cells, feature rows, scorer arrays","functions":["Lattice::insert_node::<DualConnector>","Lattice::search_min_node::<DualConnector>","Lattice::insert_eos::<DualConnector>","DualConnector::cost"],"fs":2048,"unwind":10,"timeout":2400,"mem_gb":24}
#[cfg(kani)]
#[kani::proof]
fn c02_shape_n2_dual() {
    let conn = sym_dual_connector(2, 2);
    viterbi_shape(&conn, 2, 2, 2, 2, &N2_FULL, 2);
}

//@ c02_search_min_raw {"tier":"thorough","core":false,"desc":"Bellman step with the raw connector: arg-min over a boundary of 2 arbitrary nodes","bounds":"M=2 nodes, raw connector 2x2","symbolic":"node costs/ids, feature rows, scorer arrays, left id","functions":["Lattice::search_min_node::<RawConnector>","RawConnector::cost"],"fs":2048,"unwind":10,"timeout":1800,"mem_gb":16}
#[cfg(kani)]
#[kani::proof]
fn c02_search_min_raw() {
    let (nr, nl) = (2, 2);
    let conn = sym_raw_connector(nr, nl);
    let lat = lattice_with_boundary(2, nr, nl);
    let left = any_below_u16(nl);
    let (idx, cost) = lat.verif_search_min_node(1, left, &conn);
    let b = &lat.verif_ends()[1];
    assert!((idx as usize) < 2);
    for j in 0..2 {
        assert!(cost <= b[j].min_cost + conn.cost(b[j].right_id, left));
    }
    kani::cover!(idx == 0);
    core::mem::forget(lat);
}

// ---------------------------------------------------------------------------------------
// dictionary costs reach the lattice unchanged: whole pipeline on a sentence whose only
// candidate is an unknown word
// ---------------------------------------------------------------------------------------
//@ c02_pipe_unknown_cost {"desc":"the cost minimised is the dictionary's: for a sentence whose only candidate is one unknown word, the reported token carries the unk.def entry's left/right ids and cost, its total_cost is cost(BOS,left)+word cost and the sentence cost adds cost(right,EOS)","bounds":"N=1 \"c\"; dictionary {a,ab}, 3 categories with one unk.def entry each, 3x3 matrix","symbolic":"all ids, costs and matrix cells","functions":["Tokenizer::add_lattice_edges","UnkHandler::gen_unk_words","UnkWord::word_param","Lattice::insert_node","Lattice::insert_eos","Lattice::append_top_nodes"],"fs":2048,"unwind":7,"timeout":1200,"mem_gb":16}
#[cfg(kani)]
#[kani::proof]
fn c02_pipe_unknown_cost() {
    use crate::world::*;
    let spec = Spec { sys: L_A_AB, user: None, cats: CATS_MIX, unk_mult: &[1, 1, 1], nr: 3, nl: 3 };
    let tok_owned = tokenizer_of(&spec, false, 0);
    let tok = &tok_owned;
    let d = tok.dictionary();
    // 'c' (U+0003) is DEFAULT = category 0, whose single unk.def entry is entries[0]
    let e = &d.verif_unk_handler().verif_entries()[0];
    let (el, er, ec) = (e.left_id, e.right_id, i32::from(e.word_cost));
    let m = matrix_of(d.verif_connector());
    let mut w = tok.new_worker();
    w.reset_sentence("\u{3}");
    w.tokenize();
    assert!(w.num_tokens() == 1);
    let top = w.verif_top_nodes();
    let (_, n) = &top[0];
    assert!(n.left_id == el && n.right_id == er, "the unknown token does not carry its unk.def entry's connection ids");
    let mut c_in = 0;
    let mut c_out = 0;
    for i in 0..3u16 {
        if i == el {
            c_in = m.cost(0, i);
        }
        if i == er {
            c_out = m.cost(i, 0);
        }
    }
    assert!(n.min_cost == c_in + ec, "total_cost of the unknown token is not cost(BOS,left) + word cost of its unk.def entry");
    assert!(w.verif_lattice().verif_eos().unwrap().min_cost == c_in + ec + c_out, "sentence cost is not the accumulated dictionary cost");
    kani::cover!(el == 1 && er == 2);
    core::mem::forget(w);
    core::mem::forget(tok_owned);
}
