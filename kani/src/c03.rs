//! C03: candidate words are exactly lexicon prefixes plus MeCab-style unknown words.
use crate::util::*;
use vibrato::verif_hooks::*;

/// Category sets use all 18 bits; the primary category is one of the first `ncat` (the ones
/// the unknown handler has offsets for).
#[cfg(kani)]
fn sym_charinfo18(ncat: usize) -> CharInfo {
    let base = any_below(ncat) as u32;
    let set: u32 = kani::any();
    kani::assume(set < (1u32 << 18));
    kani::assume(set & (1 << base) != 0);
    let length: u16 = kani::any();
    kani::assume(length < 16);
    CharInfo::new(set, base, kani::any(), kani::any(), length).unwrap()
}

/// Reference run length: the maximal chain of neighbours sharing a category, from `start`.
fn ref_run(sets: &[u32], start: usize) -> usize {
    let mut run = 1;
    let mut i = start;
    while i + 1 < sets.len() && (sets[i] & sets[i + 1]) != 0 {
        run += 1;
        i += 1;
    }
    run
}

const UNK_MULT: [usize; 3] = [1, 2, 0];
const UNK_E: usize = 3;
const MAXN: usize = 4;

/// `gen_unk_words` at a concrete (n, start) against the rule of the statement, for every
/// category layout, invoke/group/length, max_grouping_len, has_matched and entry parameters.
#[cfg(kani)]
fn unk_rule(n: usize, start: usize) {
    let (nr, nl) = (4, 4);
    let ncat = 3;
    let mut cinfos = Vec::with_capacity(n);
    let mut sets = [0u32; MAXN];
    let mut chars = Vec::with_capacity(n);
    for i in 0..n {
        let ci = sym_charinfo18(ncat);
        sets[i] = ci.cate_idset();
        cinfos.push(ci);
        chars.push('x');
    }
    let ci = cinfos[start];
    let mut sent = Sentence::verif_from_parts(String::new(), chars, Vec::new(), cinfos, Vec::new());
    sent.verif_compute_groupable();
    let unk = sym_unk(&UNK_MULT, nr, nl);
    let has_matched: bool = kani::any();
    let max_group: Option<usize> = if kani::any() {
        None
    } else {
        let m: usize = kani::any();
        kani::assume(m != 0); // Tokenizer::max_grouping_len maps 0 to None
        Some(m)
    };

    // emissions, counted per (length, entry)
    let mut count = [[0u8; UNK_E]; MAXN + 1];
    let mut bad = false;
    {
        let entries = unk.verif_entries();
        unk.gen_unk_words(&sent, start, has_matched, max_group, |w| {
            let len = w.end_char().wrapping_sub(w.start_char());
            let id = w.word_idx().word_id as usize;
            if w.start_char() != start || len == 0 || len > n - start || id >= UNK_E {
                bad = true;
            } else {
                if w.word_idx().lex_type != LexType::Unknown {
                    bad = true;
                }
                let e = &entries[id];
                let p = w.word_param();
                if p.left_id != e.left_id || p.right_id != e.right_id || p.word_cost != e.word_cost {
                    bad = true;
                }
                count[len][id] = count[len][id].wrapping_add(1);
            }
        });
    }
    assert!(!bad, "an unknown candidate has a wrong start, length, entry or parameters");

    // reference, from the statement
    let run = ref_run(&sets[..n], start);
    let mut expect = [0u8; MAXN + 1];
    if !(has_matched && !ci.invoke()) {
        let mut produced = has_matched;
        if ci.group() {
            let within = match max_group {
                None => true,
                Some(m) => run - 1 <= m,
            };
            if within {
                expect[run] += 1;
                produced = true;
            }
        }
        let lim = core::cmp::min(ci.length() as usize, run);
        for i in 1..=MAXN {
            if i <= lim && !(ci.group() && i == run) {
                expect[i] += 1;
                produced = true;
            }
        }
        if !produced {
            expect[1] += 1;
        }
    }
    let base = ci.base_id() as usize;
    let lo = unk.verif_offsets()[base];
    let hi = unk.verif_offsets()[base + 1];
    for len in 1..=MAXN {
        for e in 0..UNK_E {
            let want = if e >= lo && e < hi { expect[len] } else { 0 };
            assert!(count[len][e] == want, "unknown-word candidates differ from the MeCab rule");
        }
    }
    kani::cover!(ci.group() && run > 1 && expect[run] == 1 && base == 1);
    kani::cover!(!ci.group() && expect[1] == 1);
    core::mem::forget(sent);
    core::mem::forget(unk);
}

macro_rules! unk_rule_harness {
    ($name:ident, $n:expr, $s:expr) => {
        #[cfg(kani)]
        #[kani::proof]
        fn $name() {
            unk_rule($n, $s)
        }
    };
}

//@ c03_unk_rule_n1_s0 {"covers":"any","desc":"gen_unk_words vs the MeCab rule, 1-character sentence","bounds":"n=1,start=0; 3 categories with 1/2/0 entries; 18-bit category sets","symbolic":"category sets, primary category, invoke, group, length 0..15, max_grouping_len (any usize or none), has_matched, entry ids/costs","functions":["UnkHandler::gen_unk_words","UnkHandler::scan_entries","Sentence::compute_groupable"],"unwind":6,"timeout":600}
unk_rule_harness!(c03_unk_rule_n1_s0, 1, 0);
//@ c03_unk_rule_n2_s0 {"desc":"gen_unk_words vs the MeCab rule","bounds":"n=2,start=0; 3 categories with 1/2/0 entries","symbolic":"as c03_unk_rule_n1_s0","functions":["UnkHandler::gen_unk_words","UnkHandler::scan_entries","Sentence::compute_groupable"],"unwind":6,"timeout":600}
unk_rule_harness!(c03_unk_rule_n2_s0, 2, 0);
//@ c03_unk_rule_n2_s1 {"covers":"any","desc":"gen_unk_words vs the MeCab rule (last position)","bounds":"n=2,start=1","symbolic":"as c03_unk_rule_n1_s0","functions":["UnkHandler::gen_unk_words","UnkHandler::scan_entries","Sentence::compute_groupable"],"unwind":6,"timeout":600}
unk_rule_harness!(c03_unk_rule_n2_s1, 2, 1);
//@ c03_unk_rule_n3_s0 {"desc":"gen_unk_words vs the MeCab rule","bounds":"n=3,start=0","symbolic":"as c03_unk_rule_n1_s0","functions":["UnkHandler::gen_unk_words","UnkHandler::scan_entries","Sentence::compute_groupable"],"unwind":6,"timeout":900}
unk_rule_harness!(c03_unk_rule_n3_s0, 3, 0);
//@ c03_unk_rule_n3_s1 {"desc":"gen_unk_words vs the MeCab rule (inner position)","bounds":"n=3,start=1","symbolic":"as c03_unk_rule_n1_s0","functions":["UnkHandler::gen_unk_words","UnkHandler::scan_entries","Sentence::compute_groupable"],"unwind":6,"timeout":900}
unk_rule_harness!(c03_unk_rule_n3_s1, 3, 1);
//@ c03_unk_rule_n3_s2 {"covers":"any","tier":"thorough","desc":"gen_unk_words vs the MeCab rule","bounds":"n=3,start=2","symbolic":"as c03_unk_rule_n1_s0","functions":["UnkHandler::gen_unk_words","UnkHandler::scan_entries","Sentence::compute_groupable"],"unwind":6,"timeout":900}
unk_rule_harness!(c03_unk_rule_n3_s2, 3, 2);
//@ c03_unk_rule_n4_s0 {"desc":"gen_unk_words vs the MeCab rule, run lengths up to 4","bounds":"n=4,start=0","symbolic":"as c03_unk_rule_n1_s0","functions":["UnkHandler::gen_unk_words","UnkHandler::scan_entries","Sentence::compute_groupable"],"unwind":7,"timeout":1200}
unk_rule_harness!(c03_unk_rule_n4_s0, 4, 0);
//@ c03_unk_rule_n4_s1 {"tier":"thorough","desc":"gen_unk_words vs the MeCab rule","bounds":"n=4,start=1","symbolic":"as c03_unk_rule_n1_s0","functions":["UnkHandler::gen_unk_words","UnkHandler::scan_entries","Sentence::compute_groupable"],"unwind":7,"timeout":1200}
unk_rule_harness!(c03_unk_rule_n4_s1, 4, 1);
//@ c03_unk_rule_n4_s2 {"tier":"thorough","desc":"gen_unk_words vs the MeCab rule","bounds":"n=4,start=2","symbolic":"as c03_unk_rule_n1_s0","functions":["UnkHandler::gen_unk_words","UnkHandler::scan_entries","Sentence::compute_groupable"],"unwind":7,"timeout":1200}
unk_rule_harness!(c03_unk_rule_n4_s2, 4, 2);
//@ c03_unk_rule_n4_s3 {"covers":"any","tier":"thorough","desc":"gen_unk_words vs the MeCab rule","bounds":"n=4,start=3","symbolic":"as c03_unk_rule_n1_s0","functions":["UnkHandler::gen_unk_words","UnkHandler::scan_entries","Sentence::compute_groupable"],"unwind":7,"timeout":1200}
unk_rule_harness!(c03_unk_rule_n4_s3, 4, 3);

//@ c03_unk_rule_twin {"expect":"fail","desc":"vacuity twin: claims gen_unk_words never emits the full run when group=1; must be refuted","bounds":"n=2,start=0","symbolic":"as c03_unk_rule_n1_s0","functions":["UnkHandler::gen_unk_words"],"unwind":6,"timeout":600,"covers":"none"}
#[cfg(kani)]
#[kani::proof]
fn c03_unk_rule_twin() {
    let n = 2;
    let mut cinfos = Vec::with_capacity(n);
    for _ in 0..n {
        cinfos.push(sym_charinfo18(3));
    }
    let ci = cinfos[0];
    let mut sent = Sentence::verif_from_parts(String::new(), vec!['x', 'x'], Vec::new(), cinfos, Vec::new());
    sent.verif_compute_groupable();
    let unk = sym_unk(&UNK_MULT, 4, 4);
    let mut two = false;
    unk.gen_unk_words(&sent, 0, kani::any(), None, |w| {
        if w.end_char() == 2 {
            two = true;
        }
    });
    assert!(!(ci.group() && two), "VACUITY: grouped candidates exist");
    core::mem::forget(sent);
    core::mem::forget(unk);
}

//@ c03_groupable_n4 {"desc":"compute_groupable equals the length of the chain of neighbours sharing a category, at every position","bounds":"n=4 characters, 18-bit category sets","symbolic":"all category sets","functions":["Sentence::compute_groupable"],"unwind":7,"timeout":600}
#[cfg(kani)]
#[kani::proof]
fn c03_groupable_n4() {
    let n = 4;
    let mut cinfos = Vec::with_capacity(n);
    let mut sets = [0u32; 4];
    for i in 0..n {
        let ci = sym_charinfo18(3);
        sets[i] = ci.cate_idset();
        cinfos.push(ci);
    }
    let mut sent = Sentence::verif_from_parts(String::new(), vec!['x'; 4], Vec::new(), cinfos, Vec::new());
    sent.verif_compute_groupable();
    for i in 0..n {
        assert!(sent.groupable(i) == ref_run(&sets, i));
    }
    kani::cover!(sent.groupable(0) == 4);
    kani::cover!(sent.groupable(0) == 1 && sent.groupable(1) == 3);
    core::mem::forget(sent);
}

//@ c03_groupable_n1 {"desc":"compute_groupable on a single character","bounds":"n=1","symbolic":"category set","functions":["Sentence::compute_groupable"],"unwind":4,"timeout":300,"covers":"none"}
#[cfg(kani)]
#[kani::proof]
fn c03_groupable_n1() {
    let mut sent = Sentence::verif_from_parts(String::new(), vec!['x'], Vec::new(), vec![sym_charinfo18(3)], Vec::new());
    sent.verif_compute_groupable();
    assert!(sent.groupable(0) == 1);
    core::mem::forget(sent);
}

//@ c03_char_info_lookup {"desc":"char_info returns the table entry of the code point, and entry 0 (the one of U+0000, which is DEFAULT unless a range line covers U+0000 - see c03_kf_astral_inherits_u0000) for characters beyond the table, for every Unicode scalar","bounds":"table of 5 entries (the real one has 65536; the lookup code is the same)","symbolic":"the character (any char, astral included), all table entries","functions":["CharProperty::char_info","Sentence::compute_categories"],"unwind":7,"timeout":300}
#[cfg(kani)]
#[kani::proof]
fn c03_char_info_lookup() {
    let mut table = Vec::with_capacity(5);
    let mut raw = [0u32; 5];
    for i in 0..5 {
        raw[i] = kani::any();
        table.push(CharInfo::verif_from_raw(raw[i]));
    }
    let prop = CharProperty::verif_from_parts(table, Vec::new());
    let c: char = kani::any();
    let got = prop.char_info(c).verif_raw();
    let cp = c as u32;
    if cp < 5 {
        assert!(got == raw[cp as usize]);
    } else {
        assert!(got == raw[0]);
    }
    kani::cover!(cp > 0xFFFF);
    kani::cover!(cp == 4);
    // and through Sentence::compute_categories
    let mut sent = Sentence::verif_from_parts(String::new(), vec![c], Vec::new(), Vec::new(), Vec::new());
    sent.verif_compute_categories(&prop);
    assert!(sent.char_info(0).verif_raw() == got);
    core::mem::forget(sent);
    core::mem::forget(prop);
}

// ---------------------------------------------------------------------------------------
// char.def -> table: the table is computed natively, at check time, by the current
// `CharProperty::from_reader` (the text parser - BufReader::lines, split_whitespace,
// HashMap<String,_> - does not fold inside CBMC, see DESIGN); the solver then decides, for every
// Unicode scalar at once, that looking the character up in that table gives what the lines of
// the file say.
// ---------------------------------------------------------------------------------------
#[cfg(kani)]
fn chardef_expected(cp: u32) -> (u32, u32, bool, bool, u16) {
    // categories in declaration order: DEFAULT=0 SPACE=1 ALPHA=2 KANJI=3 EDGE=4
    // (cate_idset, base_id, invoke, group, length); later lines override earlier ones
    if cp == 0xFFFE || cp == 0xFFFF {
        (1 << 4, 4, true, false, 3)
    } else if cp == 0x9FFF {
        (1 << 2, 2, true, true, 0)
    } else if cp >= 0x4E00 && cp <= 0x9FFF {
        (1 << 3, 3, false, false, 2)
    } else if cp >= 0x50 && cp <= 0x52 {
        ((1 << 3) | (1 << 2), 3, false, false, 2)
    } else if cp >= 0x41 && cp <= 0x5A {
        (1 << 2, 2, true, true, 0)
    } else if cp == 0x20 {
        (1 << 1, 1, false, true, 0)
    } else {
        (1 << 0, 0, false, true, 0)
    }
}

//@ c03_chardef_table {"desc":"for every Unicode scalar, looking the character up in the table that the current CharProperty::from_reader built from an 11-line char.def gives the categories, primary category and invoke/group/length of the last range line covering it (inclusive bounds, single-point lines, a multi-category line, an override inside a range, a range ending at U+FFFF), and DEFAULT when no line covers it (supplementary planes included)","bounds":"one concrete char.def (5 categories, 6 range lines; text in gen.rs CHARDEF_TEXT); the table is produced natively by from_reader at check time - the text parser itself is not executed symbolically","symbolic":"the character (all 0x110000 - 0x800 scalars)","functions":["CharProperty::from_reader (native, output checked)","CharProperty::char_info","CharInfo::cate_idset","CharInfo::base_id","CharInfo::invoke","CharInfo::group","CharInfo::length","CharProperty::cate_id"],"unwind":8,"timeout":900}
#[cfg(kani)]
#[kani::proof]
fn c03_chardef_table() {
    let n = gen::CHARDEF_TABLE.len();
    // the static table is viewed as the Vec<CharInfo> it was dumped from (CharInfo is a u32
    // newtype); it is never written or dropped
    let table = unsafe { Vec::from_raw_parts(gen::CHARDEF_TABLE.as_ptr() as *mut CharInfo, n, n) };
    let mut names = Vec::with_capacity(6);
    for s in gen::CHARDEF_CATEGORIES.iter() {
        names.push(String::from(*s));
    }
    let prop = CharProperty::verif_from_parts(table, names);
    let c: char = kani::any();
    let cp = c as u32;
    let info = prop.char_info(c);
    let e = chardef_expected(cp);
    assert!(info.cate_idset() == e.0, "categories differ from the last covering char.def line");
    assert!(info.base_id() == e.1, "primary category differs from the last covering char.def line");
    assert!(info.invoke() == e.2 && info.group() == e.3 && info.length() == e.4, "invoke/group/length differ from the category definition");
    kani::cover!(cp == 0xFFFF);
    kani::cover!(cp == 0x51);
    kani::cover!(cp > 0xFFFF);
    core::mem::forget(prop);
}

//@ c03_kf_astral_inherits_u0000 {"desc":"a character no char.def line covers is DEFAULT: supplementary-plane characters when a range line covers U+0000 (known finding: they take U+0000's entry, as MeCab does)","bounds":"char.def of c03_chardef_table plus the line '0x0000 ALPHA'; first 4 table entries as built natively by from_reader","symbolic":"the character (>= U+10000)","functions":["CharProperty::char_info"],"unwind":8,"timeout":300,"core":false}
#[cfg(kani)]
#[kani::proof]
fn c03_kf_astral_inherits_u0000() {
    let mut table = Vec::with_capacity(5);
    for i in 0..4 {
        table.push(CharInfo::verif_from_raw(gen::CHARDEF0_HEAD[i]));
    }
    let prop = CharProperty::verif_from_parts(table, Vec::new());
    let c: char = kani::any();
    kani::assume(c as u32 > 0xFFFF);
    let info = prop.char_info(c);
    assert!(info.base_id() == 0 && info.cate_idset() == 1, "an uncovered character is not DEFAULT");
    core::mem::forget(prop);
}

// ---------------------------------------------------------------------------------------
// glue in add_lattice_edges: "a lexicon entry matched" includes the user lexicon
// ---------------------------------------------------------------------------------------
//@ c03_user_match_counts_as_match {"desc":"at a position where only a user-lexicon entry matches and the first character's category has invoke=0, no unknown word is offered - exactly as if the same row were a system entry (candidate counts per boundary and optimal cost of system {b} + user {ab} equal those of system {b,ab})","bounds":"N=2 \"ab\"; categories with invoke=0 for letters; 2x2 matrix","symbolic":"all costs, ids, matrix","functions":["Tokenizer::add_lattice_edges","UnkHandler::gen_unk_words","Lexicon::common_prefix_iterator"],"fs":2048,"unwind":7,"timeout":1200,"mem_gb":16}
#[cfg(kani)]
#[kani::proof]
fn c03_user_match_counts_as_match() {
    crate::c08::user_vs_extended(&crate::c08::S_USER0, &crate::c08::S_SYS0)
}

// ---------------------------------------------------------------------------------------
// lexicon prefix search
// ---------------------------------------------------------------------------------------
const ALPHA: [char; 4] = ['\u{1}', '\u{2}', '\u{3}', '\u{3042}'];

#[cfg(kani)]
fn prefix_search(trie: &[u8], post: &[u32], nwords: usize, surfs: &[&[u32]], n: usize) {
    let (nr, nl) = (3, 3);
    let mut params = Vec::with_capacity(nwords);
    let mut feats = Vec::with_capacity(nwords);
    let mut pcopy = [WordParam::default(); 8];
    for i in 0..nwords {
        let p = sym_param(nr, nl);
        pcopy[i] = p;
        params.push(p);
        feats.push(String::new());
    }
    let lt = if kani::any() { LexType::System } else { LexType::User };
    let lex = Lexicon::verif_from_parts(trie, copy_u32(post), params, feats, lt);
    let mut input = Vec::with_capacity(n);
    let mut code = [0u32; 4];
    for i in 0..n {
        let a = any_below(4);
        input.push(ALPHA[a]);
        code[i] = ALPHA[a] as u32;
    }
    let mut count = [0u8; 8];
    let mut bad = false;
    for m in lex.common_prefix_iterator(&input) {
        let id = m.word_idx.word_id as usize;
        if id >= nwords || m.word_idx.lex_type != lt {
            bad = true;
        } else {
            if m.end_char != surfs[id].len() || m.word_param != pcopy[id] {
                bad = true;
            }
            count[id] = count[id].wrapping_add(1);
        }
    }
    assert!(!bad, "a match names a wrong word, end or parameter");
    let mut total = 0;
    for w in 0..nwords {
        let s = surfs[w];
        let mut is_prefix = s.len() <= n;
        for j in 0..s.len() {
            if j < n && code[j] != s[j] {
                is_prefix = false;
            }
        }
        assert!(count[w] == is_prefix as u8, "prefix matches differ from 'every entry whose surface is a prefix'");
        total += count[w];
    }
    kani::cover!(total >= 2);
    kani::cover!(total == 0);
    core::mem::forget(lex);
    core::mem::forget(input);
}

/// The same claim with the input enumerated: every string of length n over the 4-letter
/// alphabet is a concrete instance inside one query (symex folds each search completely); the
/// word parameters and the lexicon type stay symbolic.  With a symbolic input the iterator stack
/// (`flat_map` over postings) does not fold and a 2-character query takes >10 minutes.
#[cfg(kani)]
fn prefix_search_all_inputs(trie: &[u8], post: &[u32], nwords: usize, surfs: &[&[u32]], n: usize) {
    let (nr, nl) = (3, 3);
    let mut params = Vec::with_capacity(nwords);
    let mut feats = Vec::with_capacity(nwords);
    let mut pcopy = [WordParam::default(); 8];
    for i in 0..nwords {
        let p = sym_param(nr, nl);
        pcopy[i] = p;
        params.push(p);
        feats.push(String::new());
    }
    let lt = if kani::any() { LexType::System } else { LexType::User };
    let lex = Lexicon::verif_from_parts(trie, copy_u32(post), params, feats, lt);
    let mut total_inputs = 1;
    for _ in 0..n {
        total_inputs *= 4;
    }
    let mut multi = false;
    for code_idx in 0..total_inputs {
        // one spare slot: see util::sentence_of
        let mut input = ['\0'; 4];
        let mut code = [0u32; 4];
        let mut x = code_idx;
        for i in 0..n {
            input[i] = ALPHA[x % 4];
            code[i] = ALPHA[x % 4] as u32;
            x /= 4;
        }
        let mut count = [0u8; 8];
        let mut bad = false;
        for m in lex.common_prefix_iterator(&input[..n]) {
            let id = m.word_idx.word_id as usize;
            if id >= nwords || m.word_idx.lex_type != lt {
                bad = true;
            } else {
                if m.end_char != surfs[id].len() || m.word_param != pcopy[id] {
                    bad = true;
                }
                count[id] += 1;
            }
        }
        assert!(!bad, "a match names a wrong word, end or parameter");
        let mut total = 0;
        for w in 0..nwords {
            let s = surfs[w];
            let mut is_prefix = s.len() <= n;
            for j in 0..s.len() {
                if j < n && code[j] != s[j] {
                    is_prefix = false;
                }
            }
            assert!(count[w] == is_prefix as u8, "prefix matches differ from 'every entry whose surface is a prefix'");
            total += count[w];
        }
        if total >= 2 {
            multi = true;
        }
    }
    kani::cover!(multi);
    core::mem::forget(lex);
}

//@ c03_prefix_enum_a_ab {"desc":"common_prefix_iterator returns exactly the entries whose surface is a prefix, for every 2-character input over a 4-letter alphabet (nested prefixes a, ab)","bounds":"all 16 inputs of length 2 over {a,b,c,U+3042}; generator-built trie","symbolic":"word parameters, lexicon type","functions":["Lexicon::common_prefix_iterator","WordMap::common_prefix_iterator","Trie::common_prefix_iterator","Postings::ids","crawdad::Trie::common_prefix_search"],"fs":2048,"unwind":6,"unwindset":["prefix_search_all_inputs:70"],"timeout":900}
#[cfg(kani)]
#[kani::proof]
fn c03_prefix_enum_a_ab() {
    prefix_search_all_inputs(&gen::LEX_A_AB_TRIE, &gen::LEX_A_AB_POST, gen::LEX_A_AB_NWORDS, &gen::LEX_A_AB_SURF, 2);
}

//@ c03_prefix_enum_homographs {"desc":"all rows sharing a surface are returned (homographs ab,a,ab), for every 2-character input","bounds":"all 16 inputs of length 2; 3 words, two sharing a surface","symbolic":"word parameters, lexicon type","functions":["Lexicon::common_prefix_iterator","WordMap::common_prefix_iterator","Postings::ids"],"fs":2048,"unwind":6,"unwindset":["prefix_search_all_inputs:70"],"timeout":900}
#[cfg(kani)]
#[kani::proof]
fn c03_prefix_enum_homographs() {
    prefix_search_all_inputs(&gen::LEX_AB_A_AB_TRIE, &gen::LEX_AB_A_AB_POST, gen::LEX_AB_A_AB_NWORDS, &gen::LEX_AB_A_AB_SURF, 2);
}

//@ c03_prefix_enum_deep_n3 {"tier":"thorough","desc":"prefix search over a 5-word trie of depth 3, for every 3-character input","bounds":"all 64 inputs of length 3; words a,aa,aab,aba,b","symbolic":"word parameters, lexicon type","functions":["Lexicon::common_prefix_iterator","WordMap::common_prefix_iterator","Postings::ids","crawdad::Trie::common_prefix_search"],"fs":2048,"unwind":8,"unwindset":["prefix_search_all_inputs:70"],"timeout":1800}
#[cfg(kani)]
#[kani::proof]
fn c03_prefix_enum_deep_n3() {
    prefix_search_all_inputs(&gen::LEX_DEEP_TRIE, &gen::LEX_DEEP_POST, gen::LEX_DEEP_NWORDS, &gen::LEX_DEEP_SURF, 3);
}

// (not registered: symbolic input through the flat_map iterator stack does not fold; >10 min, no verdict) c03_prefix_a_ab {"tier":"thorough","core":false,"desc":"common_prefix_iterator returns exactly the entries whose surface is a prefix (nested prefixes a, ab)","bounds":"input of 2 characters over a 4-letter alphabet (two lexicon letters, one other, one 3-byte char); generator-built trie","symbolic":"input characters, word parameters, lexicon type","functions":["Lexicon::common_prefix_iterator","WordMap::common_prefix_iterator","Trie::common_prefix_iterator","Postings::ids","crawdad::Trie::common_prefix_search"],"fs":2048,"unwind":6,"timeout":600}
#[cfg(kani)]
#[kani::proof]
fn c03_prefix_a_ab() {
    prefix_search(&gen::LEX_A_AB_TRIE, &gen::LEX_A_AB_POST, gen::LEX_A_AB_NWORDS, &gen::LEX_A_AB_SURF, 2);
}

// (not registered: symbolic input through the flat_map iterator stack does not fold; >10 min, no verdict) c03_prefix_homographs {"tier":"thorough","core":false,"desc":"all rows sharing a surface are returned (homographs ab,a,ab)","bounds":"input of 2 characters; 3 words, two sharing a surface","symbolic":"input characters, word parameters, lexicon type","functions":["Lexicon::common_prefix_iterator","WordMap::common_prefix_iterator","Postings::ids"],"fs":2048,"unwind":6,"timeout":600}
#[cfg(kani)]
#[kani::proof]
fn c03_prefix_homographs() {
    prefix_search(&gen::LEX_AB_A_AB_TRIE, &gen::LEX_AB_A_AB_POST, gen::LEX_AB_A_AB_NWORDS, &gen::LEX_AB_A_AB_SURF, 2);
}

// (not registered: symbolic input through the flat_map iterator stack does not fold; >10 min, no verdict) c03_prefix_deep_n3 {"tier":"thorough","core":false,"desc":"prefix search over a 5-word trie of depth 3","bounds":"input of 3 characters; words a,aa,aab,aba,b","symbolic":"input characters, word parameters, lexicon type","functions":["Lexicon::common_prefix_iterator","WordMap::common_prefix_iterator","Postings::ids","crawdad::Trie::common_prefix_search"],"fs":2048,"unwind":8,"timeout":900}
#[cfg(kani)]
#[kani::proof]
fn c03_prefix_deep_n3() {
    prefix_search(&gen::LEX_DEEP_TRIE, &gen::LEX_DEEP_POST, gen::LEX_DEEP_NWORDS, &gen::LEX_DEEP_SURF, 3);
}

// (not registered: symbolic input through the flat_map iterator stack does not fold; >10 min, no verdict) c03_prefix_full2_n3 {"tier":"thorough","core":false,"desc":"prefix search over all 6 surfaces of length <=2 over two letters","bounds":"input of 3 characters","symbolic":"input characters, word parameters, lexicon type","functions":["Lexicon::common_prefix_iterator","WordMap::common_prefix_iterator","Postings::ids"],"fs":2048,"unwind":8,"timeout":1200}
#[cfg(kani)]
#[kani::proof]
fn c03_prefix_full2_n3() {
    prefix_search(&gen::LEX_FULL2_TRIE, &gen::LEX_FULL2_POST, gen::LEX_FULL2_NWORDS, &gen::LEX_FULL2_SURF, 3);
}
