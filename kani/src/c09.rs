//! C09: truncated or foreign dictionary images are rejected.
//!
//! The images are written natively by the *current* `Dictionary::write` (see /verif/gen); the
//! truncation point is the symbolic variable, so one query covers every strict prefix.
use crate::util::*;
use vibrato::dictionary::Dictionary;
use vibrato::verif_hooks::*;

#[cfg(kani)]
fn truncated(img: &[u8], lo: usize, hi: usize) {
    let k: usize = kani::any();
    kani::assume(k >= lo && k < hi && k < img.len());
    let r = Dictionary::read(CutReader::new(img, k));
    assert!(r.is_err(), "a strict prefix of a dictionary image was loaded");
    kani::cover!(k == hi - 1 || k == img.len() - 1);
    kani::cover!(k == lo);
    core::mem::forget(r);
}

/// Every cut point inside one 16-byte window of the image (symbolic offset).
#[cfg(kani)]
fn truncated_window(img: &[u8], base: usize) {
    // windows are registered for nominal offsets; clamp to the actual image (its size depends on
    // the current encoding) so that the last windows always cover the last 16 cut points
    let base = if base + 16 <= img.len() { base } else { img.len() - 16 };
    let width = 16;
    let off = any_below(width);
    let r = Dictionary::read(CutReader::window(img, base, off, width));
    assert!(r.is_err(), "a strict prefix of a dictionary image was loaded");
    kani::cover!(off == width - 1);
    kani::cover!(off == 0);
    core::mem::forget(r);
}

macro_rules! prefix_window {
    ($name:ident, $img:expr, $base:expr) => {
        #[cfg(kani)]
        #[kani::proof]
        #[kani::stub(alloc::fmt::format, crate::c06::stub_format)]
        #[kani::stub(unty::type_equal, crate::csvstub::stub_type_equal)]
        fn $name() {
            truncated_window(&$img, $base)
        }
    };
}

#[cfg(kani)]
fn full_image_loads(img: &[u8]) {
    let r = Dictionary::read(CutReader::new(img, img.len()));
    assert!(r.is_ok(), "the untruncated image must load (otherwise the prefix claim is vacuous)");
    core::mem::forget(r);
}

//@ c09_foreign_version {"desc":"an image whose header carries the product name but another version suffix (what an older or newer release writes) is rejected without panicking","bounds":"header = 'VibratoTokenizer ' + 4 symbolic bytes different from '0.5\\n', followed by the valid body of the 359-byte image","symbolic":"the 4 version bytes of the header","functions":["Dictionary::read","Dictionary::read_common"],"fs":5000,"unwind":24,"unwindset":["memcmp:24"],"timeout":900,"stubs":["alloc::fmt::format"]}
#[cfg(kani)]
#[kani::proof]
#[kani::stub(alloc::fmt::format, crate::c06::stub_format)]
#[kani::stub(unty::type_equal, crate::csvstub::stub_type_equal)]
fn c09_foreign_version() {
    const MAGIC: &[u8] = b"VibratoTokenizer 0.5\n";
    let mut img = gen::IMG_MATRIX;
    let mut same = true;
    for i in 17..21 {
        let b: u8 = kani::any();
        img[i] = b;
        if b != MAGIC[i] {
            same = false;
        }
    }
    kani::assume(!same);
    let r = Dictionary::read(CutReader::new(&img, img.len()));
    assert!(r.is_err(), "an image of another version was loaded");
    kani::cover!(img[19] == b'4' && img[20] == b'\n');
    kani::cover!(img[20] >= 0x80);
    core::mem::forget(r);
}

//@ c09_foreign_terminator {"desc":"an image whose header differs from the magic only in its last byte (the line terminator) is rejected without panicking","bounds":"header = 'VibratoTokenizer 0.5' + 1 symbolic byte different from '\\n', followed by the valid body of the 359-byte image","symbolic":"the last header byte","functions":["Dictionary::read","Dictionary::read_common"],"fs":5000,"unwind":24,"unwindset":["memcmp:24"],"timeout":900,"stubs":["alloc::fmt::format"]}
#[cfg(kani)]
#[kani::proof]
#[kani::stub(alloc::fmt::format, crate::c06::stub_format)]
#[kani::stub(unty::type_equal, crate::csvstub::stub_type_equal)]
fn c09_foreign_terminator() {
    const MAGIC: &[u8] = b"VibratoTokenizer 0.5\n";
    let mut img = gen::IMG_MATRIX;
    let mut same = true;
    for i in 20..21 {
        let b: u8 = kani::any();
        img[i] = b;
        if b != MAGIC[i] {
            same = false;
        }
    }
    kani::assume(!same);
    let r = Dictionary::read(CutReader::new(&img, img.len()));
    assert!(r.is_err(), "an image of another version was loaded");
    kani::cover!(img[20] >= 0x80);
    core::mem::forget(r);
}

//@ c09_foreign_terminator_short_reads {"desc":"a foreign header is rejected whatever way the bytes arrive: reader handing out one byte per read() call, header differing from the magic in its last byte","bounds":"'VibratoTokenizer 0.5' + 1 symbolic byte different from '\\n', valid body of the 359-byte image; read() returns 1 byte per call","symbolic":"the last header byte","functions":["Dictionary::read","Dictionary::read_common"],"fs":5000,"unwind":24,"unwindset":["memcmp:24"],"timeout":900,"stubs":["alloc::fmt::format"]}
#[cfg(kani)]
#[kani::proof]
#[kani::stub(alloc::fmt::format, crate::c06::stub_format)]
#[kani::stub(unty::type_equal, crate::csvstub::stub_type_equal)]
fn c09_foreign_terminator_short_reads() {
    let mut img = gen::IMG_MATRIX;
    let b: u8 = kani::any();
    kani::assume(b != b'\n');
    img[20] = b;
    let rdr = ShortReader { inner: CutReader::new(&img, img.len()), chunk: 1 };
    let r = Dictionary::read(rdr);
    assert!(r.is_err(), "an image with a foreign magic was loaded through a reader with short reads");
    kani::cover!(img[20] == b'4');
    core::mem::forget(r);
}

// (not registered: one symbolic cut point over the whole image forks at every read; 90 min of path exploration gave no verdict - replaced by the 16-byte window harnesses) c09_matrix_all_prefixes {"tier":"thorough","core":false,"desc":"every strict prefix of a matrix-connector dictionary image is rejected with an error, no panic","bounds":"359-byte image (2 words, 2x2 matrix, 3-entry char table, 2 unk entries); truncation point 0..358","symbolic":"the truncation point","functions":["Dictionary::read","Dictionary::read_common","bincode::decode_from_std_read","Trie::decode","DictionaryInner::decode"],"fs":5000,"unwind":24,"unwindset":["memcmp:24"],"timeout":5400,"mem_gb":28,"cbmc_args":["--paths","lifo"],"stubs":["alloc::fmt::format"]}
#[cfg(kani)]
#[kani::proof]
#[kani::stub(alloc::fmt::format, crate::c06::stub_format)]
#[kani::stub(unty::type_equal, crate::csvstub::stub_type_equal)]
fn c09_matrix_all_prefixes() {
    truncated(&gen::IMG_MATRIX, 0, gen::IMG_MATRIX.len())
}

//@ c09_matrix_cut_000 {"desc":"every strict prefix of the matrix-connector image cut at byte 0..15 is rejected with an error, no panic","bounds":"359-byte image; cut point symbolic within a 16-byte window","symbolic":"the cut point","functions":["Dictionary::read","Dictionary::read_common","bincode decode of DictionaryInner","Trie::decode"],"fs":5000,"unwind":24,"unwindset":["memcmp:24"],"timeout":1200,"mem_gb":12,"stubs":["alloc::fmt::format","unty::type_equal"]}
prefix_window!(c09_matrix_cut_000, gen::IMG_MATRIX, 0);
// (not registered: the window contains the end of a scalar/length read; its symbolic outcome is merged into the decoded value by bincode's Result plumbing and nothing downstream folds - no verdict in 200 s) c09_matrix_cut_016 {"tier":"thorough","core":false,"desc":"every strict prefix of the matrix-connector image cut at byte 16..31 is rejected with an error, no panic","bounds":"359-byte image; cut point symbolic within a 16-byte window","symbolic":"the cut point","functions":["Dictionary::read","Dictionary::read_common","bincode decode of DictionaryInner","Trie::decode"],"fs":5000,"unwind":24,"unwindset":["memcmp:24"],"timeout":1200,"mem_gb":12,"stubs":["alloc::fmt::format","unty::type_equal"]}
prefix_window!(c09_matrix_cut_016, gen::IMG_MATRIX, 16);
//@ c09_matrix_cut_032 {"tier":"thorough","desc":"every strict prefix of the matrix-connector image cut at byte 32..47 is rejected with an error, no panic","bounds":"359-byte image; cut point symbolic within a 16-byte window","symbolic":"the cut point","functions":["Dictionary::read","Dictionary::read_common","bincode decode of DictionaryInner","Trie::decode"],"fs":5000,"unwind":24,"unwindset":["memcmp:24"],"timeout":1200,"mem_gb":12,"stubs":["alloc::fmt::format","unty::type_equal"]}
prefix_window!(c09_matrix_cut_032, gen::IMG_MATRIX, 32);
//@ c09_matrix_cut_048 {"tier":"thorough","desc":"every strict prefix of the matrix-connector image cut at byte 48..63 is rejected with an error, no panic","bounds":"359-byte image; cut point symbolic within a 16-byte window","symbolic":"the cut point","functions":["Dictionary::read","Dictionary::read_common","bincode decode of DictionaryInner","Trie::decode"],"fs":5000,"unwind":24,"unwindset":["memcmp:24"],"timeout":1200,"mem_gb":12,"stubs":["alloc::fmt::format","unty::type_equal"]}
prefix_window!(c09_matrix_cut_048, gen::IMG_MATRIX, 48);
//@ c09_matrix_cut_064 {"tier":"thorough","desc":"every strict prefix of the matrix-connector image cut at byte 64..79 is rejected with an error, no panic","bounds":"359-byte image; cut point symbolic within a 16-byte window","symbolic":"the cut point","functions":["Dictionary::read","Dictionary::read_common","bincode decode of DictionaryInner","Trie::decode"],"fs":5000,"unwind":24,"unwindset":["memcmp:24"],"timeout":1200,"mem_gb":12,"stubs":["alloc::fmt::format","unty::type_equal"]}
prefix_window!(c09_matrix_cut_064, gen::IMG_MATRIX, 64);
//@ c09_matrix_cut_080 {"tier":"thorough","desc":"every strict prefix of the matrix-connector image cut at byte 80..95 is rejected with an error, no panic","bounds":"359-byte image; cut point symbolic within a 16-byte window","symbolic":"the cut point","functions":["Dictionary::read","Dictionary::read_common","bincode decode of DictionaryInner","Trie::decode"],"fs":5000,"unwind":24,"unwindset":["memcmp:24"],"timeout":1200,"mem_gb":12,"stubs":["alloc::fmt::format","unty::type_equal"]}
prefix_window!(c09_matrix_cut_080, gen::IMG_MATRIX, 80);
//@ c09_matrix_cut_096 {"desc":"every strict prefix of the matrix-connector image cut at byte 96..111 is rejected with an error, no panic","bounds":"359-byte image; cut point symbolic within a 16-byte window","symbolic":"the cut point","functions":["Dictionary::read","Dictionary::read_common","bincode decode of DictionaryInner","Trie::decode"],"fs":5000,"unwind":24,"unwindset":["memcmp:24"],"timeout":1200,"mem_gb":12,"stubs":["alloc::fmt::format","unty::type_equal"]}
prefix_window!(c09_matrix_cut_096, gen::IMG_MATRIX, 96);
//@ c09_matrix_cut_112 {"tier":"thorough","core":false,"desc":"every strict prefix of the matrix-connector image cut at byte 112..127 is rejected with an error, no panic","bounds":"359-byte image; cut point symbolic within a 16-byte window","symbolic":"the cut point","functions":["Dictionary::read","Dictionary::read_common","bincode decode of DictionaryInner","Trie::decode"],"fs":5000,"unwind":24,"unwindset":["memcmp:24"],"timeout":600,"mem_gb":12,"stubs":["alloc::fmt::format","unty::type_equal"]}
prefix_window!(c09_matrix_cut_112, gen::IMG_MATRIX, 112);
// (not registered: the window contains the end of a scalar/length read; its symbolic outcome is merged into the decoded value by bincode's Result plumbing and nothing downstream folds - no verdict in 200 s) c09_matrix_cut_128 {"tier":"thorough","core":false,"desc":"every strict prefix of the matrix-connector image cut at byte 128..143 is rejected with an error, no panic","bounds":"359-byte image; cut point symbolic within a 16-byte window","symbolic":"the cut point","functions":["Dictionary::read","Dictionary::read_common","bincode decode of DictionaryInner","Trie::decode"],"fs":5000,"unwind":24,"unwindset":["memcmp:24"],"timeout":1200,"mem_gb":12,"stubs":["alloc::fmt::format","unty::type_equal"]}
prefix_window!(c09_matrix_cut_128, gen::IMG_MATRIX, 128);
// (not registered: the window contains the end of a scalar/length read; its symbolic outcome is merged into the decoded value by bincode's Result plumbing and nothing downstream folds - no verdict in 200 s) c09_matrix_cut_144 {"tier":"thorough","core":false,"desc":"every strict prefix of the matrix-connector image cut at byte 144..159 is rejected with an error, no panic","bounds":"359-byte image; cut point symbolic within a 16-byte window","symbolic":"the cut point","functions":["Dictionary::read","Dictionary::read_common","bincode decode of DictionaryInner","Trie::decode"],"fs":5000,"unwind":24,"unwindset":["memcmp:24"],"timeout":1200,"mem_gb":12,"stubs":["alloc::fmt::format","unty::type_equal"]}
prefix_window!(c09_matrix_cut_144, gen::IMG_MATRIX, 144);
// (not registered: the window contains the end of a scalar/length read; its symbolic outcome is merged into the decoded value by bincode's Result plumbing and nothing downstream folds - no verdict in 200 s) c09_matrix_cut_160 {"tier":"thorough","core":false,"desc":"every strict prefix of the matrix-connector image cut at byte 160..175 is rejected with an error, no panic","bounds":"359-byte image; cut point symbolic within a 16-byte window","symbolic":"the cut point","functions":["Dictionary::read","Dictionary::read_common","bincode decode of DictionaryInner","Trie::decode"],"fs":5000,"unwind":24,"unwindset":["memcmp:24"],"timeout":1200,"mem_gb":12,"stubs":["alloc::fmt::format","unty::type_equal"]}
prefix_window!(c09_matrix_cut_160, gen::IMG_MATRIX, 160);
// (not registered: the window contains the end of a scalar/length read; its symbolic outcome is merged into the decoded value by bincode's Result plumbing and nothing downstream folds - no verdict in 200 s) c09_matrix_cut_176 {"tier":"thorough","core":false,"desc":"every strict prefix of the matrix-connector image cut at byte 176..191 is rejected with an error, no panic","bounds":"359-byte image; cut point symbolic within a 16-byte window","symbolic":"the cut point","functions":["Dictionary::read","Dictionary::read_common","bincode decode of DictionaryInner","Trie::decode"],"fs":5000,"unwind":24,"unwindset":["memcmp:24"],"timeout":1200,"mem_gb":12,"stubs":["alloc::fmt::format","unty::type_equal"]}
prefix_window!(c09_matrix_cut_176, gen::IMG_MATRIX, 176);
// (not registered: the window contains the end of a scalar/length read; its symbolic outcome is merged into the decoded value by bincode's Result plumbing and nothing downstream folds - no verdict in 200 s) c09_matrix_cut_192 {"tier":"thorough","core":false,"desc":"every strict prefix of the matrix-connector image cut at byte 192..207 is rejected with an error, no panic","bounds":"359-byte image; cut point symbolic within a 16-byte window","symbolic":"the cut point","functions":["Dictionary::read","Dictionary::read_common","bincode decode of DictionaryInner","Trie::decode"],"fs":5000,"unwind":24,"unwindset":["memcmp:24"],"timeout":1200,"mem_gb":12,"stubs":["alloc::fmt::format","unty::type_equal"]}
prefix_window!(c09_matrix_cut_192, gen::IMG_MATRIX, 192);
// (not registered: the window contains the end of a scalar/length read; its symbolic outcome is merged into the decoded value by bincode's Result plumbing and nothing downstream folds - no verdict in 200 s) c09_matrix_cut_208 {"tier":"thorough","core":false,"desc":"every strict prefix of the matrix-connector image cut at byte 208..223 is rejected with an error, no panic","bounds":"359-byte image; cut point symbolic within a 16-byte window","symbolic":"the cut point","functions":["Dictionary::read","Dictionary::read_common","bincode decode of DictionaryInner","Trie::decode"],"fs":5000,"unwind":24,"unwindset":["memcmp:24"],"timeout":1200,"mem_gb":12,"stubs":["alloc::fmt::format","unty::type_equal"]}
prefix_window!(c09_matrix_cut_208, gen::IMG_MATRIX, 208);
// (not registered: the window contains the end of a scalar/length read; its symbolic outcome is merged into the decoded value by bincode's Result plumbing and nothing downstream folds - no verdict in 200 s) c09_matrix_cut_224 {"tier":"thorough","core":false,"desc":"every strict prefix of the matrix-connector image cut at byte 224..239 is rejected with an error, no panic","bounds":"359-byte image; cut point symbolic within a 16-byte window","symbolic":"the cut point","functions":["Dictionary::read","Dictionary::read_common","bincode decode of DictionaryInner","Trie::decode"],"fs":5000,"unwind":24,"unwindset":["memcmp:24"],"timeout":1200,"mem_gb":12,"stubs":["alloc::fmt::format","unty::type_equal"]}
prefix_window!(c09_matrix_cut_224, gen::IMG_MATRIX, 224);
// (not registered: the window contains the end of a scalar/length read; its symbolic outcome is merged into the decoded value by bincode's Result plumbing and nothing downstream folds - no verdict in 200 s) c09_matrix_cut_240 {"tier":"thorough","core":false,"desc":"every strict prefix of the matrix-connector image cut at byte 240..255 is rejected with an error, no panic","bounds":"359-byte image; cut point symbolic within a 16-byte window","symbolic":"the cut point","functions":["Dictionary::read","Dictionary::read_common","bincode decode of DictionaryInner","Trie::decode"],"fs":5000,"unwind":24,"unwindset":["memcmp:24"],"timeout":1200,"mem_gb":12,"stubs":["alloc::fmt::format","unty::type_equal"]}
prefix_window!(c09_matrix_cut_240, gen::IMG_MATRIX, 240);
// (not registered: the window contains the end of a scalar/length read; its symbolic outcome is merged into the decoded value by bincode's Result plumbing and nothing downstream folds - no verdict in 200 s) c09_matrix_cut_256 {"tier":"thorough","core":false,"desc":"every strict prefix of the matrix-connector image cut at byte 256..271 is rejected with an error, no panic","bounds":"359-byte image; cut point symbolic within a 16-byte window","symbolic":"the cut point","functions":["Dictionary::read","Dictionary::read_common","bincode decode of DictionaryInner","Trie::decode"],"fs":5000,"unwind":24,"unwindset":["memcmp:24"],"timeout":1200,"mem_gb":12,"stubs":["alloc::fmt::format","unty::type_equal"]}
prefix_window!(c09_matrix_cut_256, gen::IMG_MATRIX, 256);
// (not registered: the window contains the end of a scalar/length read; its symbolic outcome is merged into the decoded value by bincode's Result plumbing and nothing downstream folds - no verdict in 200 s) c09_matrix_cut_272 {"tier":"thorough","core":false,"desc":"every strict prefix of the matrix-connector image cut at byte 272..287 is rejected with an error, no panic","bounds":"359-byte image; cut point symbolic within a 16-byte window","symbolic":"the cut point","functions":["Dictionary::read","Dictionary::read_common","bincode decode of DictionaryInner","Trie::decode"],"fs":5000,"unwind":24,"unwindset":["memcmp:24"],"timeout":1200,"mem_gb":12,"stubs":["alloc::fmt::format","unty::type_equal"]}
prefix_window!(c09_matrix_cut_272, gen::IMG_MATRIX, 272);
// (not registered: the window contains the end of a scalar/length read; its symbolic outcome is merged into the decoded value by bincode's Result plumbing and nothing downstream folds - no verdict in 200 s) c09_matrix_cut_288 {"tier":"thorough","core":false,"desc":"every strict prefix of the matrix-connector image cut at byte 288..303 is rejected with an error, no panic","bounds":"359-byte image; cut point symbolic within a 16-byte window","symbolic":"the cut point","functions":["Dictionary::read","Dictionary::read_common","bincode decode of DictionaryInner","Trie::decode"],"fs":5000,"unwind":24,"unwindset":["memcmp:24"],"timeout":1200,"mem_gb":12,"stubs":["alloc::fmt::format","unty::type_equal"]}
prefix_window!(c09_matrix_cut_288, gen::IMG_MATRIX, 288);
// (not registered: the window contains the end of a scalar/length read; its symbolic outcome is merged into the decoded value by bincode's Result plumbing and nothing downstream folds - no verdict in 200 s) c09_matrix_cut_304 {"tier":"thorough","core":false,"desc":"every strict prefix of the matrix-connector image cut at byte 304..319 is rejected with an error, no panic","bounds":"359-byte image; cut point symbolic within a 16-byte window","symbolic":"the cut point","functions":["Dictionary::read","Dictionary::read_common","bincode decode of DictionaryInner","Trie::decode"],"fs":5000,"unwind":24,"unwindset":["memcmp:24"],"timeout":1200,"mem_gb":12,"stubs":["alloc::fmt::format","unty::type_equal"]}
prefix_window!(c09_matrix_cut_304, gen::IMG_MATRIX, 304);
// (not registered: the window contains the end of a scalar/length read; its symbolic outcome is merged into the decoded value by bincode's Result plumbing and nothing downstream folds - no verdict in 200 s) c09_matrix_cut_320 {"tier":"thorough","core":false,"desc":"every strict prefix of the matrix-connector image cut at byte 320..335 is rejected with an error, no panic","bounds":"359-byte image; cut point symbolic within a 16-byte window","symbolic":"the cut point","functions":["Dictionary::read","Dictionary::read_common","bincode decode of DictionaryInner","Trie::decode"],"fs":5000,"unwind":24,"unwindset":["memcmp:24"],"timeout":1200,"mem_gb":12,"stubs":["alloc::fmt::format","unty::type_equal"]}
prefix_window!(c09_matrix_cut_320, gen::IMG_MATRIX, 320);
// (not registered: the window contains the end of a scalar/length read; its symbolic outcome is merged into the decoded value by bincode's Result plumbing and nothing downstream folds - no verdict in 200 s) c09_matrix_cut_336 {"tier":"thorough","core":false,"desc":"every strict prefix of the matrix-connector image cut at byte 336..351 is rejected with an error, no panic","bounds":"359-byte image; cut point symbolic within a 16-byte window","symbolic":"the cut point","functions":["Dictionary::read","Dictionary::read_common","bincode decode of DictionaryInner","Trie::decode"],"fs":5000,"unwind":24,"unwindset":["memcmp:24"],"timeout":1200,"mem_gb":12,"stubs":["alloc::fmt::format","unty::type_equal"]}
prefix_window!(c09_matrix_cut_336, gen::IMG_MATRIX, 336);
// (not registered: the window contains the end of a scalar/length read; its symbolic outcome is merged into the decoded value by bincode's Result plumbing and nothing downstream folds - no verdict in 200 s) c09_matrix_cut_343 {"tier":"thorough","core":false,"desc":"every strict prefix of the matrix-connector image cut at byte 343..358 is rejected with an error, no panic","bounds":"359-byte image; cut point symbolic within a 16-byte window","symbolic":"the cut point","functions":["Dictionary::read","Dictionary::read_common","bincode decode of DictionaryInner","Trie::decode"],"fs":5000,"unwind":24,"unwindset":["memcmp:24"],"timeout":1200,"mem_gb":12,"stubs":["alloc::fmt::format","unty::type_equal"]}
prefix_window!(c09_matrix_cut_343, gen::IMG_MATRIX, 343);
// (not registered: the window contains the end of a scalar/length read; its symbolic outcome is merged into the decoded value by bincode's Result plumbing and nothing downstream folds - no verdict in 200 s) c09_raw_cut_021 {"tier":"thorough","core":false,"desc":"strict prefixes of the raw-connector image cut at byte 21..36 are rejected (feature rows / scorer arrays region)","bounds":"547-byte image; cut point symbolic within a 16-byte window","symbolic":"the cut point","functions":["Dictionary::read","Scorer::decode","U31x8::decode"],"fs":5000,"unwind":24,"unwindset":["memcmp:24"],"timeout":1800,"mem_gb":16,"stubs":["alloc::fmt::format","unty::type_equal"]}
prefix_window!(c09_raw_cut_021, gen::IMG_RAW, 21);
//@ c09_raw_cut_200 {"tier":"thorough","core":false,"desc":"strict prefixes of the raw-connector image cut at byte 200..215 are rejected (feature rows / scorer arrays region)","bounds":"547-byte image; cut point symbolic within a 16-byte window","symbolic":"the cut point","functions":["Dictionary::read","Scorer::decode","U31x8::decode"],"fs":5000,"unwind":24,"unwindset":["memcmp:24"],"timeout":600,"mem_gb":16,"stubs":["alloc::fmt::format","unty::type_equal"]}
prefix_window!(c09_raw_cut_200, gen::IMG_RAW, 200);
// (not registered: the window contains the end of a scalar/length read; its symbolic outcome is merged into the decoded value by bincode's Result plumbing and nothing downstream folds - no verdict in 200 s) c09_raw_cut_400 {"tier":"thorough","core":false,"desc":"strict prefixes of the raw-connector image cut at byte 400..415 are rejected (feature rows / scorer arrays region)","bounds":"547-byte image; cut point symbolic within a 16-byte window","symbolic":"the cut point","functions":["Dictionary::read","Scorer::decode","U31x8::decode"],"fs":5000,"unwind":24,"unwindset":["memcmp:24"],"timeout":1800,"mem_gb":16,"stubs":["alloc::fmt::format","unty::type_equal"]}
prefix_window!(c09_raw_cut_400, gen::IMG_RAW, 400);
// (not registered: the window contains the end of a scalar/length read; its symbolic outcome is merged into the decoded value by bincode's Result plumbing and nothing downstream folds - no verdict in 200 s) c09_raw_cut_531 {"tier":"thorough","core":false,"desc":"strict prefixes of the raw-connector image cut at byte 531..546 are rejected (feature rows / scorer arrays region)","bounds":"547-byte image; cut point symbolic within a 16-byte window","symbolic":"the cut point","functions":["Dictionary::read","Scorer::decode","U31x8::decode"],"fs":5000,"unwind":24,"unwindset":["memcmp:24"],"timeout":1800,"mem_gb":16,"stubs":["alloc::fmt::format","unty::type_equal"]}
prefix_window!(c09_raw_cut_531, gen::IMG_RAW, 531);
// (not registered: the window contains the end of a scalar/length read; its symbolic outcome is merged into the decoded value by bincode's Result plumbing and nothing downstream folds - no verdict in 200 s) c09_dual_cut_300 {"tier":"thorough","core":false,"desc":"strict prefixes of the dual-connector image (with user lexicon) cut at byte 300..315 are rejected","bounds":"695-byte image; cut point symbolic within a 16-byte window","symbolic":"the cut point","functions":["Dictionary::read","DualConnector decode"],"fs":5000,"unwind":24,"unwindset":["memcmp:24"],"timeout":1800,"mem_gb":16,"stubs":["alloc::fmt::format","unty::type_equal"]}
prefix_window!(c09_dual_cut_300, gen::IMG_DUAL, 300);
// (not registered: the window contains the end of a scalar/length read; its symbolic outcome is merged into the decoded value by bincode's Result plumbing and nothing downstream folds - no verdict in 200 s) c09_dual_cut_679 {"tier":"thorough","core":false,"desc":"strict prefixes of the dual-connector image (with user lexicon) cut at byte 679..694 are rejected","bounds":"695-byte image; cut point symbolic within a 16-byte window","symbolic":"the cut point","functions":["Dictionary::read","DualConnector decode"],"fs":5000,"unwind":24,"unwindset":["memcmp:24"],"timeout":1800,"mem_gb":16,"stubs":["alloc::fmt::format","unty::type_equal"]}
prefix_window!(c09_dual_cut_679, gen::IMG_DUAL, 679);

//@ c09_matrix_full_loads {"desc":"the complete image loads (non-vacuity of the prefix claim)","bounds":"359-byte image","symbolic":"none","functions":["Dictionary::read"],"fs":5000,"unwind":24,"unwindset":["memcmp:24"],"timeout":900,"covers":"none","stubs":["alloc::fmt::format"]}
#[cfg(kani)]
#[kani::proof]
#[kani::stub(alloc::fmt::format, crate::c06::stub_format)]
#[kani::stub(unty::type_equal, crate::csvstub::stub_type_equal)]
fn c09_matrix_full_loads() {
    full_image_loads(&gen::IMG_MATRIX)
}

// (not registered: one symbolic cut point over the whole image forks at every read; 90 min of path exploration gave no verdict - replaced by the 16-byte window harnesses) c09_raw_all_prefixes {"tier":"thorough","core":false,"desc":"every strict prefix of a raw-connector dictionary image (scorer arrays, 8-lane feature rows) is rejected","bounds":"547-byte image; truncation point 0..546","symbolic":"the truncation point","functions":["Dictionary::read","Scorer::decode","U31x8::decode","U31::decode"],"fs":5000,"unwind":24,"unwindset":["memcmp:24"],"timeout":5400,"mem_gb":28,"cbmc_args":["--paths","lifo"],"stubs":["alloc::fmt::format"]}
#[cfg(kani)]
#[kani::proof]
#[kani::stub(alloc::fmt::format, crate::c06::stub_format)]
#[kani::stub(unty::type_equal, crate::csvstub::stub_type_equal)]
fn c09_raw_all_prefixes() {
    truncated(&gen::IMG_RAW, 0, gen::IMG_RAW.len())
}

// (not registered: one symbolic cut point over the whole image forks at every read; 90 min of path exploration gave no verdict - replaced by the 16-byte window harnesses) c09_dual_user_all_prefixes {"tier":"thorough","core":false,"desc":"every strict prefix of a dual-connector image with a user lexicon is rejected","bounds":"695-byte image; truncation point 0..694","symbolic":"the truncation point","functions":["Dictionary::read","DualConnector::decode","Scorer::decode"],"fs":5000,"unwind":24,"unwindset":["memcmp:24"],"timeout":5400,"mem_gb":28,"cbmc_args":["--paths","lifo"],"stubs":["alloc::fmt::format"]}
#[cfg(kani)]
#[kani::proof]
#[kani::stub(alloc::fmt::format, crate::c06::stub_format)]
#[kani::stub(unty::type_equal, crate::csvstub::stub_type_equal)]
fn c09_dual_user_all_prefixes() {
    truncated(&gen::IMG_DUAL, 0, gen::IMG_DUAL.len())
}

// (not registered: one symbolic cut point over the whole image forks at every read; 90 min of path exploration gave no verdict - replaced by the 16-byte window harnesses) c09_mapped_user_all_prefixes {"tier":"thorough","core":false,"desc":"every strict prefix of an image with user lexicon and stored id mapper is rejected","bounds":"483-byte image","symbolic":"the truncation point","functions":["Dictionary::read","ConnIdMapper::decode"],"fs":5000,"unwind":24,"unwindset":["memcmp:24"],"timeout":5400,"mem_gb":28,"cbmc_args":["--paths","lifo"],"stubs":["alloc::fmt::format"]}
#[cfg(kani)]
#[kani::proof]
#[kani::stub(alloc::fmt::format, crate::c06::stub_format)]
#[kani::stub(unty::type_equal, crate::csvstub::stub_type_equal)]
fn c09_mapped_user_all_prefixes() {
    truncated(&gen::IMG_MATRIX_USER_MAPPED, 0, gen::IMG_MATRIX_USER_MAPPED.len())
}

//@ c09_foreign_magic {"desc":"any 21-byte header different from the current model magic, followed by the valid body, is rejected","bounds":"21-byte header, fully symbolic, different from the magic, followed by the valid body of the 359-byte image","symbolic":"all 21 header bytes","functions":["Dictionary::read","Dictionary::read_common"],"fs":5000,"unwind":24,"unwindset":["memcmp:24"],"timeout":1200,"stubs":["alloc::fmt::format"]}
#[cfg(kani)]
#[kani::proof]
#[kani::stub(alloc::fmt::format, crate::c06::stub_format)]
#[kani::stub(unty::type_equal, crate::csvstub::stub_type_equal)]
fn c09_foreign_magic() {
    const MAGIC: &[u8] = b"VibratoTokenizer 0.5\n";
    // the body is irrelevant on every path where the header differs from the magic (the
    // reader returns before touching it); offering only the header keeps the infeasible
    // "magic matched" path short
    let mut img = gen::IMG_MATRIX;
    let mut same = true;
    for i in 0..21 {
        let b: u8 = kani::any();
        img[i] = b;
        if b != MAGIC[i] {
            same = false;
        }
    }
    kani::assume(!same);
    let r = Dictionary::read(CutReader::new(&img, img.len()));
    assert!(r.is_err(), "an image with a foreign magic was loaded");
    kani::cover!(img[0] == b'V' && img[19] == b'4');
    core::mem::forget(r);
}

// (not registered: one symbolic cut point over the whole image forks at every read; 90 min of path exploration gave no verdict - replaced by the 16-byte window harnesses) c09_header_truncated {"tier":"thorough","core":false,"desc":"every image cut inside the magic header (0..20 bytes) is rejected","bounds":"truncation point 0..20 of the 359-byte matrix image","symbolic":"the truncation point","functions":["Dictionary::read","Dictionary::read_common"],"fs":5000,"unwind":24,"unwindset":["memcmp:24"],"timeout":3600,"mem_gb":24,"cbmc_args":["--paths","lifo"],"stubs":["alloc::fmt::format"]}
#[cfg(kani)]
#[kani::proof]
#[kani::stub(alloc::fmt::format, crate::c06::stub_format)]
#[kani::stub(unty::type_equal, crate::csvstub::stub_type_equal)]
fn c09_header_truncated() {
    // only the 21 header bytes are offered: symex cannot know that a cut inside the header never
    // reaches the body, and would otherwise decode the whole body under an infeasible guard
    truncated(&gen::IMG_MATRIX, 0, 21)
}

use bincode::{Decode, Encode};
use vibrato::common::bincode_config;

//@ c09_u31_decode_range {"desc":"the U31 decoder rejects exactly the 32-bit values with the sign bit set; truncated input is rejected","bounds":"all 4-byte inputs; all truncation points 0..3","symbolic":"the four bytes, the truncation point","functions":["U31::decode","U31::new"],"unwind":8,"timeout":600}
#[cfg(kani)]
#[kani::proof]
fn c09_u31_decode_range() {
    let bytes: [u8; 4] = kani::any();
    let v = u32::from_le_bytes(bytes);
    let r: Result<(U31, usize), _> = bincode::decode_from_slice(&bytes, bincode_config());
    match &r {
        Ok((x, n)) => {
            assert!(v <= 0x7fff_ffff && x.get() == v && *n == 4);
        }
        Err(_) => assert!(v > 0x7fff_ffff, "a valid U31 was rejected"),
    }
    let k = any_below(4);
    let t: Result<(U31, usize), _> = bincode::decode_from_slice(&bytes[..k], bincode_config());
    assert!(t.is_err(), "a truncated U31 was decoded");
    kani::cover!(v == 0x7fff_ffff);
    kani::cover!(v == 0x8000_0000);
    core::mem::forget(r);
    core::mem::forget(t);
}

//@ c09_u31x8_decode {"desc":"the 8-lane feature-id decoder accepts 32 bytes iff every lane is a valid 31-bit value, reproduces them, and rejects every truncated input","bounds":"all 32-byte inputs; all truncation points 0..31","symbolic":"the 32 bytes, the truncation point","functions":["U31x8::decode","U31::decode","U31x8::encode"],"unwind":12,"unwindset":["memcmp:40","c09_u31x8_decode:40"],"timeout":900}
#[cfg(kani)]
#[kani::proof]
fn c09_u31x8_decode() {
    let bytes: [u8; 32] = kani::any();
    let mut all_valid = true;
    let mut lanes = [0u32; 8];
    for i in 0..8 {
        lanes[i] = u32::from_le_bytes([bytes[4 * i], bytes[4 * i + 1], bytes[4 * i + 2], bytes[4 * i + 3]]);
        if lanes[i] > 0x7fff_ffff {
            all_valid = false;
        }
    }
    let r: Result<(U31x8, usize), _> = bincode::decode_from_slice(&bytes, bincode_config());
    match &r {
        Ok((x, n)) => {
            assert!(all_valid, "a lane with the sign bit set was accepted");
            assert!(*n == 32);
            let a = x.verif_to_array();
            for i in 0..8 {
                assert!(a[i].get() == lanes[i]);
            }
            // and writing it again reproduces the same bytes
            let mut out = [0u8; 32];
            let m = bincode::encode_into_slice(x, &mut out, bincode_config());
            assert!(matches!(m, Ok(32)));
            for i in 0..32 {
                assert!(out[i] == bytes[i]);
            }
        }
        Err(_) => assert!(!all_valid, "a valid 8-lane block was rejected"),
    }
    let k = any_below(32);
    let t: Result<(U31x8, usize), _> = bincode::decode_from_slice(&bytes[..k], bincode_config());
    assert!(t.is_err(), "a truncated 8-lane block was decoded");
    kani::cover!(all_valid);
    kani::cover!(!all_valid && lanes[0] <= 0x7fff_ffff);
    core::mem::forget(r);
    core::mem::forget(t);
}

/// bincode image written by hand (fixed-int little endian): Vec<u32> bases (1 element), Vec<u32>
/// checks (2), Vec<i32> costs (`ncost`); the lengths are concrete bytes (structure of the
/// instance), the contents symbolic.
#[cfg(kani)]
fn scorer_decode(ncost: usize) {
    let mut buf = [0u8; 48];
    buf[0] = 1;
    for i in 8..12 {
        buf[i] = kani::any();
    }
    buf[12] = 2;
    for i in 20..28 {
        buf[i] = kani::any();
    }
    buf[28] = ncost as u8;
    let total = 36 + 4 * ncost;
    for i in 36..48 {
        buf[i] = kani::any();
    }
    let mut r = CutReader::new(&buf, total);
    let d: Result<Scorer, _> = bincode::decode_from_std_read(&mut r, bincode_config());
    assert!(d.is_ok() == (ncost == 2), "Scorer image with inconsistent arrays accepted (or consistent one rejected)");
    if let Ok(sc) = &d {
        assert!(sc.verif_checks().len() == 2 && sc.verif_costs().len() == 2 && sc.verif_bases().len() == 1);
        assert!(sc.verif_costs()[1] == i32::from_le_bytes([buf[40], buf[41], buf[42], buf[43]]));
    }
    kani::cover!(buf[8] == 7);
    core::mem::forget(d);
}

//@ c09_scorer_decode_short_costs {"desc":"the Scorer decoder rejects an image whose cost array is shorter than its check array (decoder-side consistency check)","bounds":"bases 1, checks 2, costs 1","symbolic":"array contents","functions":["Scorer::decode"],"unwind":14,"fs":5000,"timeout":900}
#[cfg(kani)]
#[kani::proof]
#[kani::stub(unty::type_equal, crate::csvstub::stub_type_equal)]
fn c09_scorer_decode_short_costs() {
    scorer_decode(1)
}

//@ c09_scorer_decode_long_costs {"desc":"the Scorer decoder rejects an image whose cost array is longer than its check array","bounds":"bases 1, checks 2, costs 3","symbolic":"array contents","functions":["Scorer::decode"],"unwind":14,"fs":5000,"timeout":900}
#[cfg(kani)]
#[kani::proof]
#[kani::stub(unty::type_equal, crate::csvstub::stub_type_equal)]
fn c09_scorer_decode_long_costs() {
    scorer_decode(3)
}

//@ c09_scorer_decode_consistent {"desc":"a consistent Scorer image is accepted and decodes to the written values (non-vacuity of the two rejections)","bounds":"bases 1, checks 2, costs 2","symbolic":"array contents","functions":["Scorer::decode"],"unwind":14,"fs":5000,"timeout":900}
#[cfg(kani)]
#[kani::proof]
#[kani::stub(unty::type_equal, crate::csvstub::stub_type_equal)]
fn c09_scorer_decode_consistent() {
    scorer_decode(2)
}

//@ c09_scorer_truncated {"tier":"thorough","desc":"every strict prefix of a consistent Scorer image is rejected by the hand-written decoder","bounds":"44-byte image (bases 1, checks 2, costs 2); cut point symbolic 0..43","symbolic":"array contents, the cut point","functions":["Scorer::decode"],"unwind":14,"fs":5000,"timeout":1800,"mem_gb":16,"stubs":["unty::type_equal"]}
#[cfg(kani)]
#[kani::proof]
#[kani::stub(unty::type_equal, crate::csvstub::stub_type_equal)]
fn c09_scorer_truncated() {
    let mut buf = [0u8; 48];
    buf[0] = 1;
    for i in 8..12 {
        buf[i] = kani::any();
    }
    buf[12] = 2;
    for i in 20..28 {
        buf[i] = kani::any();
    }
    buf[28] = 2;
    for i in 36..44 {
        buf[i] = kani::any();
    }
    let off = any_below(44);
    let mut r = CutReader::window(&buf, 0, off, 44);
    let d: Result<Scorer, _> = bincode::decode_from_std_read(&mut r, bincode_config());
    assert!(d.is_err(), "a truncated Scorer image was decoded");
    kani::cover!(off == 43);
    core::mem::forget(d);
}

//@ c09_twin {"expect":"fail","desc":"vacuity twin: claims every 4-byte input is rejected by the U31 decoder","bounds":"4 bytes","symbolic":"the bytes","functions":["U31::decode"],"unwind":8,"timeout":600,"covers":"none","stubs":["alloc::fmt::format"]}
#[cfg(kani)]
#[kani::proof]
#[kani::stub(alloc::fmt::format, crate::c06::stub_format)]
#[kani::stub(unty::type_equal, crate::csvstub::stub_type_equal)]
fn c09_twin() {
    // claims that a header cut at any point up to and including the full magic is rejected
    // *because of the magic*: with all 21 bytes present the reader proceeds to the body
    let bytes: [u8; 4] = kani::any();
    let r: Result<(U31, usize), _> = bincode::decode_from_slice(&bytes, bincode_config());
    assert!(r.is_err(), "VACUITY: valid U31 values decode");
    core::mem::forget(r);
}
