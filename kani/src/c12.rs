//! C12: with ignore_space, the amount of whitespace does not matter.
//!
//! Both variants of a sentence are tokenized in one query by two workers of one tokenizer
//! (symbolic costs/ids/matrix shared), and the reported paths are compared token by token.
use crate::util::*;
use crate::world::*;
use vibrato::dictionary::Dictionary;
use vibrato::tokenizer::worker::Worker;
use vibrato::tokenizer::Tokenizer;
use vibrato::verif_hooks::*;

/// Meets the precondition: U+0004 belongs to SPACE alone, nobody else does, no surface has it.
const S12: Spec = Spec { sys: L_A_AB, user: None, cats: CATS_MIX, unk_mult: &[1, 1, 1], nr: 2, nl: 2 };
const S12D: Spec = Spec { sys: L_B, user: None, cats: CATS_DENSE, unk_mult: &[1, 1, 1], nr: 2, nl: 2 };

/// Token i of both results: same entry, ids, total cost, and same surface characters.
#[cfg(kani)]
fn same_tokens(w1: &Worker, c1: &[char], w2: &Worker, c2: &[char], maxt: usize) {
    let (t1, t2) = (w1.verif_top_nodes(), w2.verif_top_nodes());
    assert!(t1.len() == t2.len(), "re-spacing changed the number of tokens");
    // both lists are stored EOS-to-BOS and have the same length, so token i of one result and
    // token i of the other sit at the same (concrete) index
    for back in 0..maxt {
        if back < t1.len() && back < t2.len() {
            let (e1, n1) = &t1[back];
            let (e2, n2) = &t2[back];
            assert!(n1.word_id == n2.word_id && n1.lex_type == n2.lex_type, "re-spacing changed a token's dictionary entry");
            assert!(n1.left_id == n2.left_id && n1.right_id == n2.right_id, "re-spacing changed connection ids");
            assert!(n1.min_cost == n2.min_cost, "re-spacing changed a total cost");
            assert!(e1 - n1.start_word == e2 - n2.start_word, "re-spacing changed a surface length");
            // same surface characters
            for j in 0..4 {
                if j < e1 - n1.start_word {
                    let mut a = '\0';
                    let mut b = '\0';
                    for p in 0..c1.len() {
                        if p == n1.start_word + j {
                            a = c1[p];
                        }
                    }
                    for p in 0..c2.len() {
                        if p == n2.start_word + j {
                            b = c2[p];
                        }
                    }
                    assert!(a == b && a != SP, "re-spacing changed a surface");
                }
            }
        }
    }
    let (x, y) = (w1.verif_lattice().verif_eos().unwrap().min_cost, w2.verif_lattice().verif_eos().unwrap().min_cost);
    assert!(x == y, "re-spacing changed the sentence cost");
}

macro_rules! respace {
    ($name:ident, $spec:expr, [$($a:expr),*], $ta:expr, [$($b:expr),*], $tb:expr, $maxt:expr, $want:expr) => {
        #[cfg(kani)]
        #[kani::proof]
        fn $name() {
            let spec: Spec = $spec;
            let tok_owned = tokenizer_of(&spec, true, 0);
            let tok = &tok_owned;
            let conn = matrix_of(tok.dictionary().verif_connector());
            let mut w1 = tok.new_worker();
            w1.reset_sentence($ta);
            w1.verif_tokenize_with(conn);
            let mut w2 = tok.new_worker();
            w2.reset_sentence($tb);
            w2.verif_tokenize_with(conn);
            same_tokens(&w1, &[$($a),*], &w2, &[$($b),*], $maxt);
            kani::cover!(w1.num_tokens() == $want);
            core::mem::forget(w1);
            core::mem::forget(w2);
            core::mem::forget(tok_owned);
        }
    };
}

macro_rules! respace_mg {
    ($name:ident, $spec:expr, $mg:expr, [$($a:expr),*], $ta:expr, [$($b:expr),*], $tb:expr, $maxt:expr, $want:expr) => {
        #[cfg(kani)]
        #[kani::proof]
        fn $name() {
            let spec: Spec = $spec;
            let tok_owned = tokenizer_of(&spec, true, $mg);
            let tok = &tok_owned;
            let conn = matrix_of(tok.dictionary().verif_connector());
            let mut w1 = tok.new_worker();
            w1.reset_sentence($ta);
            w1.verif_tokenize_with(conn);
            let mut w2 = tok.new_worker();
            w2.reset_sentence($tb);
            w2.verif_tokenize_with(conn);
            same_tokens(&w1, &[$($a),*], &w2, &[$($b),*], $maxt);
            kani::cover!(w1.num_tokens() == $want);
            core::mem::forget(w1);
            core::mem::forget(w2);
            core::mem::forget(tok_owned);
        }
    };
}

//@ c12_leading {"desc":"adding a leading space run changes nothing: \"a\" vs \"<sp>a\"","bounds":"N=1 vs N=2; dictionary S12 meeting the precondition","symbolic":"costs, ids, matrix","functions":["Tokenizer::ignore_space","Tokenizer::build_lattice_inner","Lattice::insert_node","Lattice::insert_eos","Lattice::append_top_nodes"],"fs":2048,"unwind":7,"timeout":1200,"mem_gb":16}
respace!(c12_leading, S12, [A], "\u{1}", [SP, A], "\u{4}\u{1}", 2, 1);
//@ c12_trailing {"desc":"adding a trailing space run changes nothing: \"a\" vs \"a<sp>\"","bounds":"N=1 vs N=2; dictionary S12","symbolic":"costs, ids, matrix","functions":["Tokenizer::build_lattice_inner","Lattice::insert_eos","Lattice::append_top_nodes"],"fs":2048,"unwind":7,"timeout":1200,"mem_gb":16}
respace!(c12_trailing, S12, [A], "\u{1}", [A, SP], "\u{1}\u{4}", 2, 1);
//@ c12_leading_unknown {"desc":"a leading space run before an unknown word: \"c\" vs \"<sp>c\" (surface must not swallow the spaces)","bounds":"N=1 vs N=2; dictionary S12","symbolic":"costs, ids, matrix","functions":["Tokenizer::add_lattice_edges","UnkHandler::gen_unk_words","Lattice::insert_node"],"fs":2048,"unwind":7,"timeout":1200,"mem_gb":16}
respace!(c12_leading_unknown, S12, [C], "\u{3}", [SP, C], "\u{4}\u{3}", 2, 1);
//@ c12_space_run_nogroup {"desc":"a run of two spaces is skipped as a whole even when the SPACE category itself is declared non-grouping (group=0): \"<sp><sp>\" vs \"<sp>\" both yield no tokens","bounds":"N=2 vs N=1; dictionary S12D (SPACE: invoke 1, group 0, length 1)","symbolic":"costs, ids, matrix","functions":["Tokenizer::build_lattice_inner","Sentence::compute_groupable"],"fs":2048,"unwind":7,"timeout":1200,"mem_gb":16,"covers":"none"}
respace!(c12_space_run_nogroup, S12D, [SP, SP], "\u{4}\u{4}", [SP], "\u{4}", 2, 0);
//@ c12_space_run_maxgroup1 {"desc":"max_grouping_len limits unknown-word grouping, not the skipping of spaces: with max_grouping_len=1 a run of two spaces is still skipped as a whole (\"<sp><sp>\" vs \"<sp>\", no tokens)","bounds":"N=2 vs N=1; dictionary S12; max_grouping_len=1","symbolic":"costs, ids, matrix","functions":["Tokenizer::max_grouping_len","Tokenizer::build_lattice_inner","Lattice::insert_eos"],"fs":2048,"unwind":7,"timeout":1200,"mem_gb":16}
respace_mg!(c12_space_run_maxgroup1, S12, 1, [SP, SP], "\u{4}\u{4}", [SP], "\u{4}", 2, 0);
//@ c12_leading_run_maxgroup1 {"tier":"thorough","desc":"as c12_space_run_maxgroup1 with a word after the run: \"<sp><sp>a\" vs \"<sp>a\"","bounds":"N=3 vs N=2; dictionary S12; max_grouping_len=1","symbolic":"costs, ids, matrix","functions":["Tokenizer::max_grouping_len","Tokenizer::build_lattice_inner"],"fs":2048,"unwind":7,"timeout":2400,"mem_gb":24}
respace_mg!(c12_leading_run_maxgroup1, S12, 1, [SP, SP, A], "\u{4}\u{4}\u{1}", [SP, A], "\u{4}\u{1}", 2, 1);
const S12S3: Spec = Spec { sys: L_A_AB, user: None, cats: CATS_SPACE3, unk_mult: &[1, 1, 1, 1], nr: 2, nl: 2 };
//@ c12_leading_space_is_fourth_category {"tier":"thorough","desc":"leading space run with SPACE declared as the fourth category (id 3): \"a\" vs \"<sp>a\"","bounds":"N=1 vs N=2; 4 categories, SPACE last","symbolic":"costs, ids, matrix","functions":["Tokenizer::ignore_space","Tokenizer::build_lattice_inner"],"fs":2048,"unwind":7,"timeout":1200,"mem_gb":16}
respace!(c12_leading_space_is_fourth_category, S12S3, [A], "\u{1}", [SP, A], "\u{4}\u{1}", 2, 1);
//@ c12_inner_1_vs_2 {"tier":"thorough","desc":"lengthening an inner space run changes nothing: \"a<sp>b\" vs \"a<sp><sp>b\" (the word after the gap connects to the word before it)","bounds":"N=3 vs N=4; dictionary S12","symbolic":"costs, ids, matrix","functions":["Tokenizer::build_lattice_inner","Sentence::compute_groupable","Lattice::insert_node","Lattice::append_top_nodes"],"fs":2048,"unwind":8,"timeout":2400,"mem_gb":24}
respace!(c12_inner_1_vs_2, S12, [A, SP, B], "\u{1}\u{4}\u{2}", [A, SP, SP, B], "\u{1}\u{4}\u{4}\u{2}", 3, 2);
//@ c12_trailing_2_vs_1 {"tier":"thorough","desc":"shortening a trailing run: \"b<sp><sp>\" vs \"b<sp>\" with dense unknown words","bounds":"N=3 vs N=2; dictionary S12D","symbolic":"costs, ids, matrix","functions":["Tokenizer::build_lattice_inner"],"fs":2048,"unwind":8,"timeout":2400,"mem_gb":24}
respace!(c12_trailing_2_vs_1, S12D, [B, SP, SP], "\u{2}\u{4}\u{4}", [B, SP], "\u{2}\u{4}", 2, 1);
//@ c12_unknown_next_to_space {"tier":"thorough","core":false,"desc":"unknown-word grouping next to spaces: \"c<sp>c\" vs \"c<sp><sp>c\"","bounds":"N=3 vs N=4; dictionary S12","symbolic":"costs, ids, matrix","functions":["Tokenizer::build_lattice_inner","UnkHandler::gen_unk_words"],"fs":2048,"unwind":8,"timeout":2400,"mem_gb":24}
respace!(c12_unknown_next_to_space, S12, [C, SP, C], "\u{3}\u{4}\u{3}", [C, SP, SP, C], "\u{3}\u{4}\u{4}\u{3}", 3, 2);

//@ c12_ignore_space_needs_space_category {"desc":"ignore_space(true) is rejected with an error when no SPACE category exists, accepted (with the right category bit) when it does","bounds":"category tables with and without SPACE","symbolic":"costs, ids, matrix","functions":["Tokenizer::ignore_space","CharProperty::cate_id"],"fs":2048,"unwind":8,"timeout":900,"covers":"none","stubs":["alloc::fmt::format"]}
#[cfg(kani)]
#[kani::proof]
#[kani::stub(alloc::fmt::format, crate::c06::stub_format)]
fn c12_ignore_space_needs_space_category() {
    let nospace = Spec { sys: L_A, user: None, cats: CATS_NOSPACE, unk_mult: &[1, 1], nr: 1, nl: 1 };
    let t = Tokenizer::new(dict_of(&nospace));
    let r = t.ignore_space(true);
    assert!(r.is_err(), "ignore_space accepted without a SPACE category");
    core::mem::forget(r);
    // SPACE declared as the fourth category: the category *bit* is 1 << 3
    let s3 = Spec { sys: L_A, user: None, cats: CATS_SPACE3, unk_mult: &[1, 1, 1, 1], nr: 1, nl: 1 };
    let t3 = Tokenizer::new(dict_of(&s3));
    match t3.ignore_space(true) {
        Ok(t) => {
            assert!(t.verif_space_cateset() == Some(1 << 3), "the SPACE category set is not the bit of the SPACE category");
            core::mem::forget(t);
        }
        Err(_) => assert!(false, "ignore_space rejected although SPACE is defined"),
    }
    let t = Tokenizer::new(dict_of(&S12));
    match t.ignore_space(true) {
        Ok(t) => {
            assert!(t.verif_space_cateset() == Some(1 << 2));
            match t.ignore_space(false) {
                Ok(t) => {
                    assert!(t.verif_space_cateset().is_none());
                    core::mem::forget(t);
                }
                Err(_) => assert!(false),
            }
        }
        Err(_) => assert!(false, "ignore_space rejected although SPACE is defined"),
    }
}

//@ c12_twin {"expect":"fail","desc":"vacuity twin: claims a leading space changes the token count","bounds":"N=1 vs N=2","symbolic":"costs, ids, matrix","functions":["Tokenizer::build_lattice_inner"],"fs":2048,"unwind":7,"timeout":1200,"covers":"none"}
#[cfg(kani)]
#[kani::proof]
fn c12_twin() {
    let tok_owned = tokenizer_of(&S12, true, 0);
    let tok = &tok_owned;
    let conn = matrix_of(tok.dictionary().verif_connector());
    let mut w2 = tok.new_worker();
    w2.reset_sentence("\u{4}\u{1}");
    w2.verif_tokenize_with(conn);
    assert!(w2.num_tokens() != 1, "VACUITY: one token is reported");
    core::mem::forget(w2);
    core::mem::forget(tok_owned);
}
