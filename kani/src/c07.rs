//! C07: compact bigram connectors compute the defining feature-pair sum.
//!
//! Reachable part: the XOR double-array lookup (`retrieve_cost`), its accumulation over the 8
//! lanes, `ScorerBuilder::build` + lookup on concrete key sets with symbolic costs, and the
//! arithmetic of `RawConnector::cost` / `DualConnector::cost` on parts-built connectors.
//! Construction from bigram.right/left/cost text is outside the claim (see DESIGN).
use crate::util::*;
use vibrato::verif_hooks::*;

const COST_BOUND: i32 = 1 << 24;

#[cfg(kani)]
fn any_u31() -> U31 {
    let x: u32 = kani::any();
    kani::assume(x <= 0x7fff_ffff);
    U31::new(x).unwrap()
}

/// A scorer with arbitrary arrays (not necessarily produced by the builder): 3 bases, 4 cells.
#[cfg(kani)]
fn sym_scorer(nb: usize, nc: usize, bases: &mut [u32; 4], checks: &mut [u32; 8], costs: &mut [i32; 8]) -> Scorer {
    let mut b = Vec::with_capacity(nb);
    let mut ch = Vec::with_capacity(nc);
    let mut co = Vec::with_capacity(nc);
    for i in 0..nb {
        bases[i] = kani::any();
        b.push(bases[i]);
    }
    for i in 0..nc {
        checks[i] = kani::any();
        let c: i32 = kani::any();
        kani::assume(c > -COST_BOUND && c < COST_BOUND);
        costs[i] = c;
        ch.push(checks[i]);
        co.push(c);
    }
    Scorer::verif_from_parts(b, ch, co)
}

/// The definition of the two-level XOR double array: key1 selects a base, `base ^ key2` a cell,
/// the cell belongs to key1 iff its check equals key1.
fn ref_retrieve(nb: usize, nc: usize, bases: &[u32; 4], checks: &[u32; 8], costs: &[i32; 8], k1: u32, k2: u32) -> Option<i32> {
    let mut out = None;
    for i in 0..nb {
        if i as u32 == k1 {
            let pos = bases[i] ^ k2;
            for j in 0..nc {
                if j as u32 == pos && checks[j] == k1 {
                    out = Some(costs[j]);
                }
            }
        }
    }
    out
}

//@ c07_scorer_retrieve {"desc":"retrieve_cost on an arbitrary scorer: the listed cost iff key1 has a base, base^key2 is inside the arrays and the check cell names key1; never out of range, for every key incl. the invalid-feature id","bounds":"3 bases, 4 check/cost cells; keys any 31-bit value","symbolic":"all array contents, both keys","functions":["Scorer::retrieve_cost"],"unwind":8,"timeout":600}
#[cfg(kani)]
#[kani::proof]
fn c07_scorer_retrieve() {
    let (mut bases, mut checks, mut costs) = ([0u32; 4], [0u32; 8], [0i32; 8]);
    let sc = sym_scorer(3, 4, &mut bases, &mut checks, &mut costs);
    let k1 = any_u31();
    let k2 = any_u31();
    let got = sc.verif_retrieve_cost(k1, k2);
    let want = ref_retrieve(3, 4, &bases, &checks, &costs, k1.get(), k2.get());
    assert!(got == want);
    kani::cover!(got.is_some());
    kani::cover!(k1.get() == 0x7fff_ffff);
    core::mem::forget(sc);
}

//@ c07_scorer_accumulate {"desc":"accumulate_cost over one 8-lane pair is the sum over lanes of the listed costs, unlisted pairs counting 0","bounds":"3 bases, 4 cells, 1 template block (8 lanes), |cost| < 2^24","symbolic":"array contents, all 16 lane keys","functions":["Scorer::accumulate_cost","Scorer::retrieve_cost"],"unwind":10,"timeout":900}
#[cfg(kani)]
#[kani::proof]
fn c07_scorer_accumulate() {
    let (mut bases, mut checks, mut costs) = ([0u32; 4], [0u32; 8], [0i32; 8]);
    let sc = sym_scorer(3, 4, &mut bases, &mut checks, &mut costs);
    let mut a = [U31::default(); 8];
    let mut b = [U31::default(); 8];
    let mut want = 0i32;
    for i in 0..8 {
        a[i] = any_u31();
        b[i] = any_u31();
        if let Some(w) = ref_retrieve(3, 4, &bases, &checks, &costs, a[i].get(), b[i].get()) {
            want += w;
        }
    }
    let got = sc.accumulate_cost(&[U31x8::verif_from_array(a)], &[U31x8::verif_from_array(b)]);
    assert!(got == want);
    // mismatched lengths: only the common prefix of blocks is used; empty input gives 0
    assert!(sc.accumulate_cost(&[], &[U31x8::verif_from_array(b)]) == 0);
    kani::cover!(got != 0);
    core::mem::forget(sc);
}

/// Builder + lookup on a concrete key set with symbolic costs: every inserted pair returns its
/// (last) cost, every other pair of the query grid returns none.
#[cfg(kani)]
fn build_and_lookup(keys: &[(u32, u32)], grid: u32) {
    let mut b = ScorerBuilder::new();
    let mut cost = [0i32; 8];
    for (i, &(k1, k2)) in keys.iter().enumerate() {
        cost[i] = kani::any();
        b.insert(U31::new(k1).unwrap(), U31::new(k2).unwrap(), cost[i]);
    }
    let sc = b.build();
    for k1 in 0..grid {
        for k2 in 0..grid {
            let mut want = None;
            for (i, &(a, c)) in keys.iter().enumerate() {
                if a == k1 && c == k2 {
                    want = Some(cost[i]); // later insertions of the same pair overwrite
                }
            }
            let got = sc.verif_retrieve_cost(U31::new(k1).unwrap(), U31::new(k2).unwrap());
            assert!(got == want, "builder placement and lookup disagree");
        }
    }
    // the invalid-feature id never matches
    assert!(sc.verif_retrieve_cost(INVALID_FEATURE_ID, U31::new(0).unwrap()).is_none());
    assert!(sc.verif_retrieve_cost(U31::new(0).unwrap(), INVALID_FEATURE_ID).is_none());
    kani::cover!(cost[0] != 0);
    core::mem::forget(sc);
    core::mem::forget(b);
}

// (not registered: BTreeMap navigation does not fold under CBMC; no verdict in 20 min) c07_build_lookup_dense {"tier":"thorough","core":false,"desc":"ScorerBuilder::build places colliding rows without overlap: a dense 2x2 block plus a row that must be shifted","bounds":"keys {(0,0),(0,1),(1,0),(1,1),(2,0)}; query grid 4x4","symbolic":"all costs","functions":["ScorerBuilder::insert","ScorerBuilder::build","ScorerBuilder::check_base","Scorer::retrieve_cost"],"unwind":10,"timeout":1200,"fs":2048}
#[cfg(kani)]
#[kani::proof]
fn c07_build_lookup_dense() {
    build_and_lookup(&[(0, 0), (0, 1), (1, 0), (1, 1), (2, 0)], 4)
}

//@ c07_build_lookup_tiny {"tier":"thorough","core":false,"mem_gb":28,"desc":"ScorerBuilder::build + lookup: a row whose natural slot collides with the previous row must be shifted (3 listed pairs)","bounds":"keys {(0,0),(0,1),(1,0)}; query grid 3x3","symbolic":"all costs","functions":["ScorerBuilder::insert","ScorerBuilder::build","ScorerBuilder::check_base","Scorer::retrieve_cost"],"unwind":8,"timeout":2400,"fs":2048}
#[cfg(kani)]
#[kani::proof]
fn c07_build_lookup_tiny() {
    build_and_lookup(&[(0, 0), (0, 1), (1, 0)], 3)
}

// (not registered: BTreeMap navigation does not fold under CBMC; no verdict in 20 min) c07_build_lookup_sparse {"tier":"thorough","core":false,"desc":"sparse keys with a gap row, a large second key and a repeated pair","bounds":"keys {(0,3),(2,1),(2,3),(3,0),(0,3) again}; query grid 5x5","symbolic":"all costs","functions":["ScorerBuilder::insert","ScorerBuilder::build","Scorer::retrieve_cost"],"unwind":10,"timeout":1200,"fs":2048}
#[cfg(kani)]
#[kani::proof]
fn c07_build_lookup_sparse() {
    build_and_lookup(&[(0, 3), (2, 1), (2, 3), (3, 0), (0, 3)], 5)
}

#[cfg(kani)]
fn sym_row(t: usize) -> ([U31; 8], U31x8) {
    // `t` real template positions with small feature ids, the rest padded with the invalid id
    let mut a = [INVALID_FEATURE_ID; 8];
    for i in 0..8 {
        if i < t {
            let x: u32 = kani::any();
            kani::assume(x < 4);
            a[i] = U31::new(x).unwrap();
        }
    }
    (a, U31x8::verif_from_array(a))
}

//@ c07_raw_connector_cost {"desc":"RawConnector::cost(right,left) is the sum over template positions of the cost listed for (right feature, left feature); padding lanes contribute nothing; num_left/num_right count the rows","bounds":"3 right ids x 2 left ids, 3 templates padded to 8 lanes, scorer with 3 bases / 4 cells","symbolic":"feature ids of every row, scorer arrays, queried pair","functions":["RawConnector::cost","RawConnector::right_feature_ids","RawConnector::left_feature_ids","RawConnector::num_left","RawConnector::num_right","Scorer::accumulate_cost"],"unwind":10,"timeout":1200}
#[cfg(kani)]
#[kani::proof]
fn c07_raw_connector_cost() {
    let (mut bases, mut checks, mut costs) = ([0u32; 4], [0u32; 8], [0i32; 8]);
    let sc = sym_scorer(3, 4, &mut bases, &mut checks, &mut costs);
    let (r0, rx0) = sym_row(3);
    let (r1, rx1) = sym_row(3);
    let (r2, rx2) = sym_row(3);
    let (l0, lx0) = sym_row(3);
    let (l1, lx1) = sym_row(3);
    let rows_r = [r0, r1, r2];
    let rows_l = [l0, l1];
    let conn = RawConnector::new(vec![rx0, rx1, rx2], vec![lx0, lx1], 1, sc);
    assert!(conn.num_right() == 3 && conn.num_left() == 2);
    let r = any_below(3);
    let l = any_below(2);
    // select the two rows first (concrete indices under guards), then sum once
    let mut rr = rows_r[0];
    let mut lr = rows_l[0];
    for ri in 0..3 {
        if ri == r {
            rr = rows_r[ri];
        }
    }
    for li in 0..2 {
        if li == l {
            lr = rows_l[li];
        }
    }
    let mut want = 0i32;
    for t in 0..3 {
        if let Some(w) = ref_retrieve(3, 4, &bases, &checks, &costs, rr[t].get(), lr[t].get()) {
            want += w;
        }
    }
    let got = conn.cost(r as u16, l as u16);
    assert!(got == want, "raw connector cost differs from the sum over template positions");
    kani::cover!(got != 0);
    core::mem::forget(conn);
}

//@ c07_dual_connector_cost {"desc":"DualConnector::cost = pre-summed matrix part of the ids' matrix classes + raw part over the remaining lanes","bounds":"2 right ids x 2 left ids, 2x2 class matrix, 8 raw lanes, scorer 3 bases / 4 cells","symbolic":"class maps, matrix cells, raw feature rows, scorer arrays, queried pair","functions":["DualConnector::cost","MatrixConnector::cost","Scorer::accumulate_cost","DualConnector::num_left","DualConnector::num_right"],"unwind":10,"fs":2048,"timeout":1200}
#[cfg(kani)]
#[kani::proof]
fn c07_dual_connector_cost() {
    let (mut bases, mut checks, mut costs) = ([0u32; 4], [0u32; 8], [0i32; 8]);
    let sc = sym_scorer(3, 4, &mut bases, &mut checks, &mut costs);
    let m = sym_matrix(2, 2);
    let mut cells = [0i16; 4];
    for i in 0..4 {
        cells[i] = m.verif_data()[i];
    }
    let rmap = [any_below_u16(2), any_below_u16(2)];
    let lmap = [any_below_u16(2), any_below_u16(2)];
    let (r0, rx0) = sym_row(8);
    let (r1, rx1) = sym_row(8);
    let (l0, lx0) = sym_row(8);
    let (l1, lx1) = sym_row(8);
    let rows_r = [r0, r1];
    let rows_l = [l0, l1];
    let conn = DualConnector::verif_from_parts(m, vec![rmap[0], rmap[1]], vec![lmap[0], lmap[1]], vec![rx0, rx1], vec![lx0, lx1], sc);
    assert!(conn.num_right() == 2 && conn.num_left() == 2);
    let r = any_below(2);
    let l = any_below(2);
    let (mut rr, mut lr, mut rc, mut lc) = (rows_r[0], rows_l[0], rmap[0] as usize, lmap[0] as usize);
    if r == 1 {
        rr = rows_r[1];
        rc = rmap[1] as usize;
    }
    if l == 1 {
        lr = rows_l[1];
        lc = lmap[1] as usize;
    }
    let mut want = 0i32;
    for a in 0..2 {
        for b in 0..2 {
            if a == rc && b == lc {
                want += i32::from(cells[b * 2 + a]);
            }
        }
    }
    for t in 0..8 {
        if let Some(w) = ref_retrieve(3, 4, &bases, &checks, &costs, rr[t].get(), lr[t].get()) {
            want += w;
        }
    }
    let got = conn.cost(r as u16, l as u16);
    assert!(got == want, "dual connector cost differs from matrix part + raw part");
    kani::cover!(got != 0);
    core::mem::forget(conn);
}

//@ c07_kf_dual_fewer_than_8_templates {"desc":"the dual connector must be constructible for any number of templates: building its pre-summed matrix part for a model with 3 templates must not panic","bounds":"3 templates, 1 right and 1 left connection id, empty scorer","symbolic":"feature ids","functions":["DualConnector::create_matrix_connector"],"unwind":10,"fs":2048,"timeout":900,"covers":"none"}
#[cfg(kani)]
#[kani::proof]
#[kani::stub(ahash::RandomState::new, crate::csvstub::stub_random_state_new)]
fn c07_kf_dual_fewer_than_8_templates() {
    let mut row = Vec::with_capacity(3);
    for _ in 0..3 {
        let x: u32 = kani::any();
        kani::assume(x < 4);
        row.push(U31::new(x).unwrap());
    }
    let rows = vec![row];
    let sc = Scorer::verif_from_parts(Vec::new(), Vec::new(), Vec::new());
    // from_readers() passes the template count of the model and the indices that stay in the matrix
    // part (none here: with fewer than 8 templates all of them go to the 8 raw lanes)
    let r = DualConnector::verif_create_matrix_connector(&rows, &rows, &[], 3, &sc);
    core::mem::forget(r);
}

//@ c07_dual_matrix_part {"tier":"thorough","core":false,"desc":"DualConnector::create_matrix_connector: the pre-summed matrix cell of two ids' classes equals the clamped sum of the listed costs over the matrix templates, BOS/EOS row = class 0","bounds":"9 templates (1 in the matrix part), 2 right and 2 left ids with concrete feature rows, scorer 3 bases / 4 cells","symbolic":"scorer arrays (all listed costs)","functions":["DualConnector::create_matrix_connector","Scorer::accumulate_cost","MatrixConnector::new","hashbrown::HashMap (fixed seeds)"],"unwind":12,"fs":2048,"timeout":2400,"mem_gb":20}
#[cfg(kani)]
#[kani::proof]
#[kani::stub(ahash::RandomState::new, crate::csvstub::stub_random_state_new)]
fn c07_dual_matrix_part() {
    let (mut bases, mut checks, mut costs) = ([0u32; 4], [0u32; 8], [0i32; 8]);
    let sc = sym_scorer(3, 4, &mut bases, &mut checks, &mut costs);
    let u = |x: u32| U31::new(x).unwrap();
    // template 8 is the matrix template; ids 1 and 2 differ there on the right, agree on the left
    let rr = vec![vec![u(1), u(1), u(1), u(1), u(1), u(1), u(1), u(1), u(1)], vec![u(1), u(1), u(1), u(1), u(1), u(1), u(1), u(1), u(2)]];
    let lr = vec![vec![u(1), u(1), u(1), u(1), u(1), u(1), u(1), u(1), u(2)], vec![u(2), u(2), u(2), u(2), u(2), u(2), u(2), u(2), u(2)]];
    let (m, rmap, lmap) = DualConnector::verif_create_matrix_connector(&rr, &lr, &[8], 9, &sc);
    assert!(rmap.len() == 3 && lmap.len() == 3 && rmap[0] == 0 && lmap[0] == 0);
    assert!(rmap[1] != rmap[2], "ids with different matrix features share a class");
    assert!(lmap[1] == lmap[2], "ids with equal matrix features do not share a class");
    let feat_r = [0u32, 1, 2];
    let feat_l = [0u32, 2, 2];
    for r in 0..3 {
        for l in 0..3 {
            let want = match ref_retrieve(3, 4, &bases, &checks, &costs, feat_r[r], feat_l[l]) {
                Some(w) => w.clamp(i16::MIN as i32, i16::MAX as i32),
                None => 0,
            };
            assert!(m.cost(rmap[r], lmap[l]) == want, "pre-summed matrix cell differs from the listed cost");
        }
    }
    kani::cover!(m.cost(rmap[1], lmap[1]) != 0);
    core::mem::forget(m);
}

// ---------------------------------------------------------------------------------------
// connectors *built* from bigram text.  The builders (BufReader lines, string-keyed hashbrown
// maps, the greedy template split over hash sets) do not fold under CBMC, so they run natively,
// at check time, on one concrete 12-template model with ragged rows and BOS/EOS entries
// (gen.rs BIGRAM_TEXT); the generator also computes the defining feature-pair sums with its own
// reference.  The solver then decides, for every pair of connection ids at once, that `cost()`
// of the connector assembled from the natively built parts equals the defining sum.
// ---------------------------------------------------------------------------------------
#[cfg(kani)]
fn blocks_of(rows: &[[u32; 8]]) -> Vec<U31x8> {
    let mut v = Vec::with_capacity(rows.len() + 1);
    for r in rows.iter() {
        let mut a = [U31::default(); 8];
        for k in 0..8 {
            a[k] = U31::new(r[k]).unwrap();
        }
        v.push(U31x8::verif_from_array(a));
    }
    v
}

#[cfg(kani)]
fn vec_of<T: Copy>(xs: &[T]) -> Vec<T> {
    let mut v = Vec::with_capacity(xs.len() + 1);
    for x in xs.iter() {
        v.push(*x);
    }
    v
}

#[cfg(kani)]
fn want_of(r: usize, l: usize) -> i32 {
    let mut w = 0;
    for i in 0..4 {
        for j in 0..4 {
            if i == r && j == l {
                w = gen::BIGRAM_WANT[i][j];
            }
        }
    }
    w
}

//@ c07_built_dual_model {"desc":"the dual connector the current DualConnector::from_readers builds from a 12-template bigram model (ragged rows, BOS/EOS entries, templates split between matrix part and raw part) returns the defining feature-pair sum for every pair of ids","bounds":"one concrete model: 3 right + 3 left ids (+ id 0), 10 templates, 20 cost lines (text in gen.rs BIGRAM_TEXT); the builder runs natively at check time and is not executed symbolically; expected sums come from the generator's independent reference","symbolic":"the right and the left connection id","functions":["DualConnector::from_readers (native, output checked)","DualConnector::cost","MatrixConnector::cost","Scorer::accumulate_cost","Scorer::retrieve_cost"],"unwind":130,"timeout":900}
#[cfg(kani)]
#[kani::proof]
fn c07_built_dual_model() {
    let m = MatrixConnector::new(vec_of(&gen::DUAL_M_DATA), gen::DUAL_M_NR, gen::DUAL_M_NL);
    let sc = Scorer::verif_from_parts(vec_of(&gen::DUAL_BASES), vec_of(&gen::DUAL_CHECKS), vec_of(&gen::DUAL_COSTS));
    let conn = DualConnector::verif_from_parts(m, vec_of(&gen::DUAL_RMAP), vec_of(&gen::DUAL_LMAP), blocks_of(&gen::DUAL_RROWS), blocks_of(&gen::DUAL_LROWS), sc);
    let r = any_below(4);
    let l = any_below(4);
    let got = conn.cost(r as u16, l as u16);
    assert!(got == want_of(r, l), "built dual connector: cost differs from the defining feature-pair sum");
    kani::cover!(r == 2 && l == 0);
    kani::cover!(r == 0 && l == 3);
    core::mem::forget(conn);
}

//@ c07_built_raw_model {"desc":"the raw connector the current RawConnector::from_readers builds from the same model returns the defining feature-pair sum for every pair of ids","bounds":"as c07_built_dual_model","symbolic":"the right and the left connection id","functions":["RawConnector::from_readers (native, output checked)","RawConnector::cost","Scorer::accumulate_cost","Scorer::retrieve_cost"],"unwind":130,"timeout":900}
#[cfg(kani)]
#[kani::proof]
fn c07_built_raw_model() {
    let sc = Scorer::verif_from_parts(vec_of(&gen::RAW_BASES), vec_of(&gen::RAW_CHECKS), vec_of(&gen::RAW_COSTS));
    let conn = RawConnector::new(blocks_of(&gen::RAW_RROWS), blocks_of(&gen::RAW_LROWS), gen::RAW_T, sc);
    let r = any_below(4);
    let l = any_below(4);
    // the raw connector slices its rows at `id * blocks`: with a symbolic id the slice bounds and
    // with them every loop over the blocks become symbolic (no verdict in 900 s), so the symbolic
    // pair selects one of 16 calls with constant ids
    let mut got = 0;
    for i in 0..4 {
        for j in 0..4 {
            if i == r && j == l {
                got = conn.cost(i as u16, j as u16);
            }
        }
    }
    assert!(got == want_of(r, l), "built raw connector: cost differs from the defining feature-pair sum");
    kani::cover!(r == 2 && l == 0);
    kani::cover!(r == 3 && l == 3);
    core::mem::forget(conn);
}

//@ c07_twin {"expect":"fail","desc":"vacuity twin: claims retrieve_cost never finds anything","bounds":"as c07_scorer_retrieve","symbolic":"arrays, keys","functions":["Scorer::retrieve_cost"],"unwind":8,"timeout":600,"covers":"none"}
#[cfg(kani)]
#[kani::proof]
fn c07_twin() {
    let (mut bases, mut checks, mut costs) = ([0u32; 4], [0u32; 8], [0i32; 8]);
    let sc = sym_scorer(3, 4, &mut bases, &mut checks, &mut costs);
    let got = sc.verif_retrieve_cost(any_u31(), any_u31());
    assert!(got.is_none(), "VACUITY: listed pairs exist");
    core::mem::forget(sc);
}
