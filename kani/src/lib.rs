//! Kani harnesses over the real vibrato code.  Each harness is registered for the driver by a
//! `//@ <name> {json}` line (see /verif/check).
#![allow(dead_code)]
#![allow(unused_imports)]
#![allow(clippy::all)]
extern crate alloc;

pub mod util;
pub mod csvstub;
pub mod exp;
pub mod world;
pub mod c01;
pub mod c02;
pub mod c03;
pub mod c04;
pub mod c05;
pub mod c06;
pub mod c07;
pub mod c08;
pub mod c09;
pub mod c10;
pub mod c12;
pub mod c13;
