//! feasibility experiments (not registered)
use crate::util::*;
use vibrato::dictionary::Dictionary;
use vibrato::tokenizer::Tokenizer;
use vibrato::verif_hooks::*;

#[cfg(kani)]
#[kani::proof]
fn exp_pipeline_n2() {
    let (nr, nl) = (2, 2);
    let ncat = 2;
    let sys = sym_lexicon(&gen::LEX_A_AB_TRIE, &gen::LEX_A_AB_POST, gen::LEX_A_AB_NWORDS, nr, nl, LexType::System);
    let mut table = Vec::with_capacity(4);
    // concrete category table: 0 = DEFAULT (invoke 0, group 1, len 0), 1 = C (invoke 1, group 0, len 2)
    table.push(CharInfo::new(1, 0, false, true, 0).unwrap());
    table.push(CharInfo::new(2, 1, true, false, 2).unwrap());
    table.push(CharInfo::new(3, 1, true, false, 2).unwrap());
    table.push(CharInfo::new(1, 0, false, true, 0).unwrap());
    let prop = CharProperty::verif_from_parts(table, cat_names(ncat, None));
    let unk = sym_unk(&[1, 1], nr, nl);
    let dict = Dictionary::verif_from_parts(sys, None, ConnectorWrapper::Matrix(sym_matrix(nr, nl)), None, prop, unk);
    let tok = Tokenizer::new(dict);
    let mut w = tok.new_worker();
    *w.verif_sent_mut() = sentence_of(&['\u{1}', '\u{2}'], tok.dictionary().verif_char_prop());
    w.verif_tokenize_with(matrix_of(tok.dictionary().verif_connector()));
    let n = w.num_tokens();
    assert!(n >= 1 && n <= 2);
    kani::cover!(n == 1);
    kani::cover!(n == 2);
    core::mem::forget(w);
}

#[cfg(kani)]
fn exp_build_n2(conn: &MatrixConnector, p: &[WordParam; 3]) -> Lattice {
    let mut lat = Lattice::default();
    lat.reset(2);
    lat.insert_node(0, 0, 1, WordIdx { lex_type: LexType::System, word_id: 0 }, p[0], conn);
    lat.insert_node(0, 0, 2, WordIdx { lex_type: LexType::System, word_id: 1 }, p[1], conn);
    lat.insert_node(1, 1, 2, WordIdx { lex_type: LexType::System, word_id: 2 }, p[2], conn);
    lat.insert_eos(2, conn);
    lat
}

#[cfg(kani)]
#[kani::proof]
fn exp_v1() {
    let conn = sym_matrix(2, 2);
    let p = [sym_param(2, 2), sym_param(2, 2), sym_param(2, 2)];
    let lat = exp_build_n2(&conn, &p);
    let eos = lat.verif_eos().unwrap().min_cost;
    let one = conn.cost(0, p[1].left_id) + i32::from(p[1].word_cost) + conn.cost(p[1].right_id, 0);
    let two = conn.cost(0, p[0].left_id) + i32::from(p[0].word_cost) + conn.cost(p[0].right_id, p[2].left_id)
        + i32::from(p[2].word_cost) + conn.cost(p[2].right_id, 0);
    assert!(eos <= one && eos <= two);
    assert!(eos == one || eos == two);
    core::mem::forget(lat);
}

#[cfg(kani)]
#[kani::proof]
fn exp_v2() {
    let conn = sym_matrix(2, 2);
    let p = [sym_param(2, 2), sym_param(2, 2), sym_param(2, 2)];
    let lat = exp_build_n2(&conn, &p);
    let mut top = Vec::with_capacity(2);
    lat.append_top_nodes(&mut top);
    assert!(top.len() >= 1 && top.len() <= 2);
    core::mem::forget(lat);
    core::mem::forget(top);
}

#[cfg(kani)]
#[kani::proof]
fn exp_v3() {
    let conn = sym_matrix(2, 2);
    let p = [sym_param(2, 2), sym_param(2, 2), sym_param(2, 2)];
    let lat = exp_build_n2(&conn, &p);
    let mut top = Vec::with_capacity(2);
    lat.append_top_nodes(&mut top);
    let t = top.len();
    assert!(t >= 1 && t <= 2);
    if t == 1 {
        assert!(top[0].0 == 2 && top[0].1.word_id == 1);
        assert!(top[0].1.min_cost == conn.cost(0, p[1].left_id) + i32::from(p[1].word_cost));
    } else {
        assert!(top[1].0 == 1 && top[1].1.word_id == 0);
        assert!(top[0].0 == 2 && top[0].1.word_id == 2);
    }
    core::mem::forget(lat);
    core::mem::forget(top);
}

#[cfg(kani)]
#[kani::proof]
fn exp_pipeline_n2_dump() {
    let (nr, nl) = (2, 2);
    let ncat = 2;
    let sys = sym_lexicon(&gen::LEX_A_AB_TRIE, &gen::LEX_A_AB_POST, gen::LEX_A_AB_NWORDS, nr, nl, LexType::System);
    let mut table = Vec::with_capacity(4);
    table.push(CharInfo::new(1, 0, false, true, 0).unwrap());
    table.push(CharInfo::new(2, 1, true, false, 2).unwrap());
    table.push(CharInfo::new(3, 1, true, false, 2).unwrap());
    table.push(CharInfo::new(1, 0, false, true, 0).unwrap());
    let prop = CharProperty::verif_from_parts(table, cat_names(ncat, None));
    let unk = sym_unk(&[1, 1], nr, nl);
    let dict = Dictionary::verif_from_parts(sys, None, ConnectorWrapper::Matrix(sym_matrix(nr, nl)), None, prop, unk);
    let tok = Tokenizer::new(dict);
    let sent = sentence_of(&['\u{1}', '\u{2}'], tok.dictionary().verif_char_prop());
    let mut lat = Lattice::default();
    tok.verif_build_lattice_inner(&sent, &mut lat, matrix_of(tok.dictionary().verif_connector()));
    let ends = lat.verif_ends();
    kani::cover!(ends[2].len() == 3);
    assert!(ends[1].len() >= 1);
    assert!(lat.verif_eos().is_some());
    core::mem::forget(lat);
}

#[cfg(kani)]
#[kani::proof]
fn exp_prefix_concrete() {
    let lex = sym_lexicon(&gen::LEX_A_AB_TRIE, &gen::LEX_A_AB_POST, gen::LEX_A_AB_NWORDS, 2, 2, LexType::System);
    let input3 = ['\u{1}', '\u{2}', 'x'];
    let input = &input3[..2];
    let mut cnt = 0;
    for m in lex.common_prefix_iterator(input) {
        cnt += 1;
    }
    assert!(cnt == 2);
    core::mem::forget(lex);
}

#[cfg(kani)]
#[kani::proof]
fn exp_fold1() {
    let a = ['\u{1}', '\u{2}'];
    let mut c = 0;
    for _x in a.iter().cloned() {
        c += 1;
    }
    assert!(c == 2);
}

#[cfg(kani)]
#[kani::proof]
fn exp_fold2() {
    let a = ['\u{1}', '\u{2}'];
    let s: &[char] = &a;
    let mut it = s[1..].iter().cloned();
    let mut c = 0;
    for _x in it.by_ref() {
        c += 1;
    }
    assert!(c == 1);
}

#[cfg(kani)]
#[kani::proof]
fn exp_fold3() {
    let mut v = Vec::with_capacity(2);
    v.push('\u{1}');
    v.push('\u{2}');
    let mut c = 0;
    for _x in v[..].iter().cloned() {
        c += 1;
    }
    assert!(c == 2);
    core::mem::forget(v);
}

#[cfg(kani)]
#[kani::proof]
fn exp_crawdad1() {
    let (t, _) = crawdad::Trie::deserialize_from_slice(&gen::LEX_A_AB_TRIE);
    let input = ['\u{1}', '\u{2}'];
    let mut c = 0;
    for (_v, _e) in t.common_prefix_search(input.iter().cloned()) {
        c += 1;
    }
    assert!(c == 2);
    core::mem::forget(t);
}

#[cfg(kani)]
#[kani::proof]
fn exp_crawdad2() {
    let (t, _) = crawdad::Trie::deserialize_from_slice(&gen::LEX_A_AB_TRIE);
    let r = t.exact_match(['\u{1}', '\u{2}']);
    assert!(r.is_some());
    core::mem::forget(t);
}

#[cfg(kani)]
#[kani::proof]
fn exp_pc_a() {
    let lex = sym_lexicon(&gen::LEX_A_AB_TRIE, &gen::LEX_A_AB_POST, gen::LEX_A_AB_NWORDS, 2, 2, LexType::System);
    let input = ['\u{1}', '\u{2}'];
    let lexr: &'static Lexicon = Box::leak(Box::new(lex));
    let mut it = lexr.common_prefix_iterator(&input);
    let a = it.next();
    assert!(a.is_some());
}

#[cfg(kani)]
#[kani::proof]
fn exp_pc_b() {
    let lex = sym_lexicon(&gen::LEX_A_AB_TRIE, &gen::LEX_A_AB_POST, gen::LEX_A_AB_NWORDS, 2, 2, LexType::System);
    let input = ['\u{1}', '\u{2}'];
    let lexr: &'static Lexicon = Box::leak(Box::new(lex));
    let mut it = lexr.common_prefix_iterator(&input);
    let a = it.next();
    let b = it.next();
    assert!(a.is_some() && b.is_some());
}

#[cfg(kani)]
#[kani::proof]
fn exp_pc_c() {
    let lex = sym_lexicon(&gen::LEX_A_AB_TRIE, &gen::LEX_A_AB_POST, gen::LEX_A_AB_NWORDS, 2, 2, LexType::System);
    let input = ['\u{1}', '\u{2}'];
    let lexr: &'static Lexicon = Box::leak(Box::new(lex));
    let mut it = lexr.common_prefix_iterator(&input);
    let a = it.next();
    let b = it.next();
    let c = it.next();
    assert!(a.is_some() && b.is_some() && c.is_none());
}

#[cfg(kani)]
#[kani::proof]
fn exp_x1() {
    let (t, _) = crawdad::Trie::deserialize_from_slice(&gen::LEX_A_AB_TRIE);
    let input = ['\u{1}', '\u{2}'];
    let mut it = t.common_prefix_search(input.iter().cloned()).map(|(v, e)| (v + 1, e));
    let a = it.next();
    let b = it.next();
    let c = it.next();
    assert!(a.is_some() && b.is_some() && c.is_none());
    core::mem::forget(it);
    core::mem::forget(t);
}

#[cfg(kani)]
#[kani::proof]
fn exp_x2() {
    let (t, _) = crawdad::Trie::deserialize_from_slice(&gen::LEX_A_AB_TRIE);
    let posts = copy_u32(&gen::LEX_A_AB_POST);
    let input = ['\u{1}', '\u{2}'];
    let mut it = t
        .common_prefix_search(input.iter().cloned())
        .flat_map(|(v, e)| {
            let len = posts[v as usize] as usize;
            posts[v as usize + 1..v as usize + 1 + len].iter().cloned().map(move |w| (w, e))
        });
    let a = it.next();
    let b = it.next();
    let c = it.next();
    assert!(a.is_some() && b.is_some() && c.is_none());
    core::mem::forget(it);
    core::mem::forget(t);
}

#[cfg(kani)]
#[kani::proof]
fn exp_y1() {
    let a = [1u32, 2];
    let posts = [10u32, 20, 30, 40];
    let mut it = a.iter().cloned().flat_map(|v| posts[v as usize..v as usize + 1].iter().cloned());
    let x = it.next();
    let y = it.next();
    let z = it.next();
    assert!(x == Some(20) && y == Some(30) && z.is_none());
}

#[cfg(kani)]
#[kani::proof]
fn exp_y2() {
    let a = [1u32, 2];
    let posts = [10u32, 20, 30, 40];
    let mut c = 0;
    for x in a.iter().cloned().flat_map(|v| posts[v as usize..v as usize + 1].iter().cloned()) {
        c += x;
    }
    assert!(c == 50);
}

#[cfg(kani)]
#[kani::proof]
fn exp_z1() {
    let a = [1u32, 2];
    let mut it = a.iter().cloned().flat_map(|v| core::iter::once(v));
    let x = it.next();
    let y = it.next();
    let z = it.next();
    assert!(x == Some(1) && y == Some(2) && z.is_none());
}

#[cfg(kani)]
#[kani::proof]
fn exp_z2() {
    let posts = [10u32, 20, 30, 40];
    let mut it = (1usize..3).flat_map(|v| posts[v..v + 1].iter().cloned());
    let x = it.next();
    let y = it.next();
    let z = it.next();
    assert!(x == Some(20) && y == Some(30) && z.is_none());
}

#[cfg(kani)]
#[kani::proof]
fn exp_z3() {
    let a = [1u32, 2];
    let mut it = a.iter().cloned().flat_map(|v| Some(v));
    let x = it.next();
    let y = it.next();
    let z = it.next();
    assert!(x == Some(1) && y == Some(2) && z.is_none());
}

#[cfg(kani)]
#[kani::proof]
fn exp_y3() {
    let a = [1u32, 2, 99];
    let posts = [10u32, 20, 30, 40];
    let mut it = a[..2].iter().cloned().flat_map(|v| posts[v as usize..v as usize + 1].iter().cloned());
    let x = it.next();
    let y = it.next();
    let z = it.next();
    assert!(x == Some(20) && y == Some(30) && z.is_none());
}

#[cfg(kani)]
#[kani::proof]
fn exp_reset_real() {
    let (nr, nl) = (2, 2);
    let ncat = 2;
    let sys = sym_lexicon(&gen::LEX_A_AB_TRIE, &gen::LEX_A_AB_POST, gen::LEX_A_AB_NWORDS, nr, nl, LexType::System);
    let mut table = Vec::with_capacity(4);
    table.push(CharInfo::new(1, 0, false, true, 0).unwrap());
    table.push(CharInfo::new(2, 1, true, false, 2).unwrap());
    table.push(CharInfo::new(3, 1, true, false, 2).unwrap());
    table.push(CharInfo::new(1, 0, false, true, 0).unwrap());
    let prop = CharProperty::verif_from_parts(table, cat_names(ncat, None));
    let unk = sym_unk(&[1, 1], nr, nl);
    let dict = Dictionary::verif_from_parts(sys, None, ConnectorWrapper::Matrix(sym_matrix(nr, nl)), None, prop, unk);
    let tok = Tokenizer::new(dict);
    let mut w = tok.new_worker();
    w.reset_sentence("\u{1}\u{2}");
    let s = w.verif_sent();
    assert!(s.len_char() == 2);
    assert!(s.chars()[0] == '\u{1}' && s.chars()[1] == '\u{2}');
    assert!(s.groupable(0) == 2);
    w.verif_tokenize_with(matrix_of(tok.dictionary().verif_connector()));
    let n = w.num_tokens();
    assert!(n >= 1 && n <= 2);
    core::mem::forget(w);
}

#[cfg(kani)]
#[kani::proof]
fn exp_public_api() {
    let (nr, nl) = (2, 2);
    let ncat = 2;
    let sys = sym_lexicon(&gen::LEX_A_AB_TRIE, &gen::LEX_A_AB_POST, gen::LEX_A_AB_NWORDS, nr, nl, LexType::System);
    let mut table = Vec::with_capacity(4);
    table.push(CharInfo::new(1, 0, false, true, 0).unwrap());
    table.push(CharInfo::new(2, 1, true, false, 2).unwrap());
    table.push(CharInfo::new(3, 1, true, false, 2).unwrap());
    table.push(CharInfo::new(1, 0, false, true, 0).unwrap());
    let prop = CharProperty::verif_from_parts(table, cat_names(ncat, None));
    let unk = sym_unk(&[1, 1], nr, nl);
    let dict = Dictionary::verif_from_parts(sys, None, ConnectorWrapper::Matrix(sym_matrix(nr, nl)), None, prop, unk);
    let tok = Tokenizer::new(dict);
    let mut w = tok.new_worker();
    w.reset_sentence("\u{1}\u{2}");
    let s = w.verif_sent();
    assert!(s.len_char() == 2);
    assert!(s.chars()[0] == '\u{1}' && s.chars()[1] == '\u{2}');
    assert!(s.groupable(0) == 2);
    w.tokenize();
    let n = w.num_tokens();
    assert!(n >= 1 && n <= 2);
    core::mem::forget(w);
}

#[cfg(kani)]
#[kani::proof]
#[kani::stub(csv_core::Reader::new, crate::csvstub::stub_reader_new)]
#[kani::stub(csv_core::Reader::build_dfa, crate::csvstub::stub_build_dfa)]
#[kani::stub(alloc::fmt::format, crate::c06::stub_format)]
fn exp_csv_concrete() {
    let bytes: [u8; 10] = *b"b,1,2,3,u\n";
    match Lexicon::verif_parse_csv(&bytes, "lex.csv") {
        Ok(v) => {
            assert!(v.len() == 1);
            assert!(v[0].param.left_id == 1 && v[0].param.right_id == 2 && v[0].param.word_cost == 3);
            assert!(v[0].surface.len() == 1);
            assert!(v[0].feature.len() == 1);
            core::mem::forget(v);
        }
        Err(_) => assert!(false),
    }
}

#[cfg(kani)]
#[kani::proof]
#[kani::stub(csv_core::Reader::new, crate::csvstub::stub_reader_new)]
#[kani::stub(csv_core::Reader::build_dfa, crate::csvstub::stub_build_dfa)]
#[kani::stub(alloc::fmt::format, crate::c06::stub_format)]
fn exp_user_lexicon() {
    let s = crate::world::Spec { sys: crate::world::L_A_AB, user: None, cats: crate::world::CATS_MIX, unk_mult: &[1, 1, 1], nr: 3, nl: 3 };
    let d = crate::world::dict_of(&s);
    let csv: [u8; 10] = *b"\x02,1,2,3,u\n";
    let d = match d.reset_user_lexicon_from_reader(Some(&csv[..])) {
        Ok(d) => d,
        Err(_) => { assert!(false); return; }
    };
    let ul = d.verif_user_lexicon().unwrap();
    assert!(ul.verif_num_words() == 1);
    let p = ul.word_param(WordIdx { lex_type: LexType::User, word_id: 0 });
    assert!(p.left_id == 1 && p.right_id == 2 && p.word_cost == 3);
    core::mem::forget(d);
}

#[cfg(kani)]
#[kani::proof]
fn exp_decode_params() {
    // Vec<WordParam> of 2 elements, fixint little endian
    let bytes: [u8; 20] = [2, 0, 0, 0, 0, 0, 0, 0, 1, 0, 1, 0, 10, 0, 1, 0, 0, 0, 249, 255];
    let mut r = ByteReader::new(&bytes, 20);
    let v: Result<Vec<WordParam>, _> = bincode::decode_from_std_read(&mut r, vibrato::common::bincode_config());
    match v {
        Ok(v) => {
            assert!(v.len() == 2);
            assert!(v[1].word_cost == -7);
            core::mem::forget(v);
        }
        Err(_) => assert!(false),
    }
}

#[cfg(kani)]
#[kani::proof]
#[kani::stub(unty::type_equal, crate::csvstub::stub_type_equal)]
fn exp_decode_lexicon() {
    let mut r = ByteReader::new(&gen::IMG_MATRIX[21..], gen::IMG_MATRIX.len() - 21);
    let v: Result<Lexicon, _> = bincode::decode_from_std_read(&mut r, vibrato::common::bincode_config());
    match v {
        Ok(v) => {
            assert!(v.verif_num_words() == 2);
            core::mem::forget(v);
        }
        Err(_) => assert!(false),
    }
}

#[cfg(kani)]
#[kani::proof]
fn exp_decode_lexicon_slice() {
    let mut r: &[u8] = &gen::IMG_MATRIX[21..];
    let v: Result<Lexicon, _> = bincode::decode_from_std_read(&mut r, vibrato::common::bincode_config());
    match v {
        Ok(v) => {
            assert!(v.verif_num_words() == 2);
            core::mem::forget(v);
        }
        Err(_) => assert!(false),
    }
}

#[cfg(kani)]
fn per_call(tag: &str) {}

#[cfg(kani)]
#[kani::proof]
#[kani::stub(unty::type_equal, crate::csvstub::stub_type_equal)]
fn exp_dec_e1() {
    // (Vec<u32> [7,8], Vec<u16> [1,2,3])
    let bytes: [u8; 31] = [2,0,0,0,0,0,0,0, 7,0,0,0, 8,0,0,0, 3,0,0,0,0,0,0,0, 1,0, 2,0, 3,0, 0];
    let mut r = ByteReader::new(&bytes, 30);
    let v: Result<(Vec<u32>, Vec<u16>), _> = bincode::decode_from_std_read(&mut r, vibrato::common::bincode_config());
    match v {
        Ok(v) => { assert!(v.0.len() == 2 && v.1.len() == 3 && v.1[2] == 3); core::mem::forget(v); }
        Err(_) => assert!(false),
    }
}

#[cfg(kani)]
#[kani::proof]
fn exp_dec_e2() {
    // (Vec<u8> [9,9,9], Vec<u16> [1,2])
    let bytes: [u8; 24] = [3,0,0,0,0,0,0,0, 9,9,9, 2,0,0,0,0,0,0,0, 1,0, 2,0, 0];
    let mut r = ByteReader::new(&bytes, 23);
    let v: Result<(Vec<u8>, Vec<u16>), _> = bincode::decode_from_std_read(&mut r, vibrato::common::bincode_config());
    match v {
        Ok(v) => { assert!(v.0.len() == 3 && v.1.len() == 2 && v.1[1] == 2); core::mem::forget(v); }
        Err(_) => assert!(false),
    }
}

#[cfg(kani)]
#[kani::proof]
fn exp_dec_e3() {
    // (Vec<u32> [7,8], Vec<WordParam> 2)
    let bytes: [u8; 37] = [2,0,0,0,0,0,0,0, 7,0,0,0, 8,0,0,0, 2,0,0,0,0,0,0,0, 1,0,1,0,10,0, 1,0,0,0,249,255, 0];
    let mut r = ByteReader::new(&bytes, 36);
    let v: Result<(Vec<u32>, Vec<WordParam>), _> = bincode::decode_from_std_read(&mut r, vibrato::common::bincode_config());
    match v {
        Ok(v) => { assert!(v.0.len() == 2 && v.1.len() == 2 && v.1[1].word_cost == -7); core::mem::forget(v); }
        Err(_) => assert!(false),
    }
}

#[cfg(kani)]
#[kani::proof]
fn exp_dec_e4() {
    let bytes: [u8; 21] = [2,0,0,0,0,0,0,0, 7,0,0,0, 8,0,0,0, 1,0, 2,0, 0];
    let mut r = ByteReader::new(&bytes, 20);
    let v: Result<(Vec<u32>, u16, u16), _> = bincode::decode_from_std_read(&mut r, vibrato::common::bincode_config());
    match v {
        Ok(v) => { assert!(v.0.len() == 2 && v.1 == 1 && v.2 == 2); core::mem::forget(v); }
        Err(_) => assert!(false),
    }
}

#[cfg(kani)]
#[kani::proof]
fn exp_dec_e7() {
    // (Vec<u32> [], Vec<u16> [1,2,3])
    let bytes: [u8; 23] = [0,0,0,0,0,0,0,0, 3,0,0,0,0,0,0,0, 1,0, 2,0, 3,0, 0];
    let mut r = ByteReader::new(&bytes, 22);
    let v: Result<(Vec<u32>, Vec<u16>), _> = bincode::decode_from_std_read(&mut r, vibrato::common::bincode_config());
    match v {
        Ok(v) => { assert!(v.0.len() == 0 && v.1.len() == 3 && v.1[2] == 3); core::mem::forget(v); }
        Err(_) => assert!(false),
    }
}

#[cfg(kani)]
#[kani::proof]
fn exp_dec_e8() {
    // (Vec<u32> [7], Vec<u16> [1,2,3])  -- a single element
    let bytes: [u8; 27] = [1,0,0,0,0,0,0,0, 7,0,0,0, 3,0,0,0,0,0,0,0, 1,0, 2,0, 3,0, 0];
    let mut r = ByteReader::new(&bytes, 26);
    let v: Result<(Vec<u32>, Vec<u16>), _> = bincode::decode_from_std_read(&mut r, vibrato::common::bincode_config());
    match v {
        Ok(v) => { assert!(v.0.len() == 1 && v.1.len() == 3 && v.1[2] == 3); core::mem::forget(v); }
        Err(_) => assert!(false),
    }
}

#[cfg(kani)]
fn burn(n: usize) -> usize {
    let mut c = 0;
    let mut i = 0;
    while i < n {
        c += 1;
        i += 1;
    }
    c
}

#[cfg(kani)]
#[kani::proof]
fn exp_dec_e9() {
    let bytes: [u8; 21] = [1,0,0,0,0,0,0,0, 7,0,0,0, 1,0, 2,0, 3,0, 0, 0, 0];
    let mut r = ByteReader::new(&bytes, 20);
    let cfg = vibrato::common::bincode_config();
    let a: Result<Vec<u32>, _> = bincode::decode_from_std_read(&mut r, cfg);
    let c1 = burn(r.pos);
    let b: Result<u16, _> = bincode::decode_from_std_read(&mut r, cfg);
    let c2 = burn(r.pos);
    let c: Result<u16, _> = bincode::decode_from_std_read(&mut r, cfg);
    let c3 = burn(r.pos);
    assert!(c1 == 12 && c2 == 14 && c3 == 16);
    core::mem::forget(a);
    core::mem::forget(b);
    core::mem::forget(c);
}

#[cfg(kani)]
fn read_u32(r: &mut ByteReader) -> Result<u32, bincode::error::DecodeError> {
    bincode::decode_from_std_read(r, vibrato::common::bincode_config())
}

#[cfg(kani)]
fn loop_plain(r: &mut ByteReader, len: usize) -> Result<u32, bincode::error::DecodeError> {
    let mut s = 0;
    for _ in 0..len {
        s += read_u32(r)?;
    }
    Ok(s)
}

#[cfg(kani)]
fn loop_vec(r: &mut ByteReader, len: usize) -> Result<Vec<u32>, bincode::error::DecodeError> {
    let mut v = Vec::with_capacity(len);
    for _ in 0..len {
        v.push(read_u32(r)?);
    }
    Ok(v)
}

#[cfg(kani)]
#[kani::proof]
fn exp_dec_f1() {
    let bytes: [u8; 13] = [7,0,0,0, 8,0,0,0, 1,0, 2,0, 0];
    let mut r = ByteReader::new(&bytes, 12);
    let a = loop_plain(&mut r, 2);
    let c1 = burn(r.pos);
    assert!(c1 == 8);
    core::mem::forget(a);
}

#[cfg(kani)]
#[kani::proof]
fn exp_dec_f2() {
    let bytes: [u8; 13] = [7,0,0,0, 8,0,0,0, 1,0, 2,0, 0];
    let mut r = ByteReader::new(&bytes, 12);
    let a = loop_vec(&mut r, 2);
    let c1 = burn(r.pos);
    assert!(c1 == 8);
    core::mem::forget(a);
}

#[cfg(kani)]
#[kani::proof]
fn exp_dec_f3() {
    // no loop: two reads and `?`
    let bytes: [u8; 13] = [7,0,0,0, 8,0,0,0, 1,0, 2,0, 0];
    let mut r = ByteReader::new(&bytes, 12);
    let a = read_u32(&mut r);
    let b = read_u32(&mut r);
    let c1 = burn(r.pos);
    assert!(c1 == 8);
    core::mem::forget(a);
    core::mem::forget(b);
}

#[cfg(kani)]
#[kani::proof]
fn exp_err_fold() {
    use std::io::Read;
    let data = [1u8, 2, 3];
    let mut r = CutReader::new(&data, 3);
    let mut b = [0u8; 8];
    let e = r.read_exact(&mut b);
    let c = if e.is_err() { burn(3) } else { burn(20) };
    assert!(c == 3);
    core::mem::forget(e);
}

#[cfg(kani)]
#[kani::proof]
fn exp_err_fold2() {
    // through bincode's IoReader and `?`
    let data = [1u8, 2, 3];
    let mut r = CutReader::new(&data, 3);
    let v: Result<u64, _> = bincode::decode_from_std_read(&mut r, vibrato::common::bincode_config());
    let c = if v.is_err() { burn(3) } else { burn(20) };
    assert!(c == 3);
    core::mem::forget(v);
}

#[cfg(kani)]
#[kani::proof]
fn exp_err_fold3() {
    use std::io::Read;
    let data = [1u8, 2, 3];
    let mut r = CutReader::new(&data, 3);
    let mut b = [0u8; 8];
    let e = r.read_exact(&mut b).map_err(|inner| bincode::error::DecodeError::Io { inner, additional: 8 });
    let c = if e.is_err() { burn(3) } else { burn(20) };
    assert!(c == 3);
    core::mem::forget(e);
}

#[cfg(kani)]
fn q(r: &mut CutReader) -> Result<u64, bincode::error::DecodeError> {
    use std::io::Read;
    let mut b = [0u8; 8];
    r.read_exact(&mut b).map_err(|inner| bincode::error::DecodeError::Io { inner, additional: 8 })?;
    Ok(u64::from_le_bytes(b))
}

#[cfg(kani)]
#[kani::proof]
fn exp_err_fold4() {
    let data = [1u8, 2, 3];
    let mut r = CutReader::new(&data, 3);
    let e = q(&mut r);
    let c = if e.is_err() { burn(3) } else { burn(20) };
    assert!(c == 3);
    core::mem::forget(e);
}

#[cfg(kani)]
#[kani::proof]
fn exp_trie_ser() {
    let lex = sym_lexicon(&gen::LEX_A_AB_TRIE, &gen::LEX_A_AB_POST, gen::LEX_A_AB_NWORDS, 2, 2, LexType::System);
    let v = lex.verif_trie_bytes();
    let c = burn(v[0] as usize);
    let d = burn(v.len());
    assert!(c == 3 && d == 88);
    core::mem::forget(v);
    core::mem::forget(lex);
}

#[cfg(kani)]
#[kani::proof]
fn exp_btree() {
    let mut m = std::collections::BTreeMap::new();
    m.insert(3u32, 10i32);
    m.insert(1u32, 20i32);
    let mut s = 0;
    let mut n = 0;
    for (k, v) in &m {
        s += *v + *k as i32;
        n += 1;
    }
    let c = burn(n);
    assert!(s == 34 && c == 2);
    core::mem::forget(m);
}

#[cfg(kani)]
#[kani::proof]
#[kani::stub(alloc::fmt::format, crate::c06::stub_format)]
fn exp_parse_body() {
    let mut b = [0u8; 5];
    for i in 0..5 {
        let x: u8 = kani::any();
        kani::assume(x == b' ' || x == b'-' || (x >= b'0' && x <= b'9'));
        b[i] = x;
    }
    let s = unsafe { core::str::from_utf8_unchecked(&b) };
    let r = MatrixConnector::verif_parse_body(s);
    if let Ok((a, c, d)) = &r {
        kani::cover!(*a == 1 && *c == 2 && *d == 3);
    }
    core::mem::forget(r);
}

#[cfg(kani)]
#[kani::proof]
#[kani::stub(alloc::fmt::format, crate::c06::stub_format)]
#[kani::stub(ahash::RandomState::new, crate::csvstub::stub_random_state_new)]
#[kani::stub(core::str::from_utf8, crate::csvstub::stub_from_utf8)]
#[kani::stub(core::slice::memchr::memchr, crate::csvstub::stub_memchr)]
#[kani::stub(std::collections::hash_map::RandomState::new, crate::csvstub::stub_std_random_state_new)]
fn exp_chardef() {
    let text: &[u8] = b"DEFAULT 0 1 0\nX 1 0 2\n0x0001..0x0002 X\n0xFFFF X\n\0";
    let r = CharProperty::from_reader(&text[..text.len() - 1]);
    match &r {
        Ok(p) => {
            let c: char = kani::any();
            let info = p.char_info(c);
            let cp = c as u32;
            let is_x = cp == 1 || cp == 2 || cp == 0xFFFF;
            assert!(info.base_id() == if is_x { 1 } else { 0 });
            kani::cover!(cp == 0xFFFF);
        }
        Err(_) => assert!(false, "rejected"),
    }
    core::mem::forget(r);
}
