//! csv-core runs in its own reference NFA mode inside the solver: symbolically executing
//! `Reader::build_dfa` (2560 table cells) alone takes >25 minutes.  The NFA and the DFA are the
//! same automaton by csv-core's construction (its test-suite runs both); that equivalence is
//! trusted, not checked here.
pub fn stub_reader_new() -> csv_core::Reader {
    let mut b = csv_core::ReaderBuilder::new();
    b.nfa(true);
    b.build()
}

pub fn stub_build_dfa(_r: &mut csv_core::Reader) {}

/// bincode's `Vec<T>::decode` asks `unty::type_equal::<T, u8>()` (a `TypeId` obtained through a
/// `dyn` call) to pick its bulk-read fast path.  CBMC cannot fold the virtual call, explores both
/// branches and merges them, after which the reader position is no longer a constant and nothing
/// downstream folds.  Comparing the type names is the same predicate for the types involved here
/// and is a constant-data comparison.
pub fn stub_type_equal<Src: ?Sized, Target: ?Sized>() -> bool {
    let a = core::any::type_name::<Src>().as_bytes();
    let b = core::any::type_name::<Target>().as_bytes();
    if a.len() != b.len() {
        return false;
    }
    let mut i = 0;
    while i < a.len() {
        if a[i] != b[i] {
            return false;
        }
        i += 1;
    }
    true
}

/// hashbrown's default hasher state draws its seeds from the OS (`getrandom` -> `syscall`), which
/// Kani does not model.  Fixed seeds: hash *values* are not part of any property here.
pub fn stub_random_state_new() -> ahash::RandomState {
    ahash::RandomState::with_seeds(1, 2, 3, 4)
}

/// `core::str::from_utf8` validates with word-at-a-time reads whose alignment Kani leaves
/// nondeterministic, so its verdict never folds to a constant even on constant bytes (and every
/// `String` length set under it turns symbolic).  This is the textbook byte-at-a-time validator:
/// same predicate, constant on constant input.  Ill-formed input is outside the harnesses that use
/// it (their text is concrete) and is reported as a failure rather than assumed away.
pub fn stub_from_utf8(v: &[u8]) -> Result<&str, core::str::Utf8Error> {
    let n = v.len();
    let mut i = 0;
    while i < n {
        let b = v[i];
        let extra = if b < 0x80 {
            0
        } else if b >= 0xC2 && b <= 0xDF {
            1
        } else if b >= 0xE0 && b <= 0xEF {
            2
        } else if b >= 0xF0 && b <= 0xF4 {
            3
        } else {
            panic!("ill-formed UTF-8 is outside this harness");
        };
        if i + extra >= n + (extra == 0) as usize {
            panic!("ill-formed UTF-8 is outside this harness");
        }
        let mut k = 1;
        while k <= extra {
            let c = v[i + k];
            let (lo, hi) = if k == 1 {
                match b {
                    0xE0 => (0xA0, 0xBF),
                    0xED => (0x80, 0x9F),
                    0xF0 => (0x90, 0xBF),
                    0xF4 => (0x80, 0x8F),
                    _ => (0x80, 0xBF),
                }
            } else {
                (0x80, 0xBF)
            };
            if c < lo || c > hi {
                panic!("ill-formed UTF-8 is outside this harness");
            }
            k += 1;
        }
        i += extra + 1;
    }
    Ok(unsafe { core::str::from_utf8_unchecked(v) })
}

/// std's `RandomState::new` seeds SipHash from the OS (thread-local keys filled by a syscall Kani
/// does not model).  Fixed keys: hash values are not part of any property here.
pub fn stub_std_random_state_new() -> std::collections::hash_map::RandomState {
    // RandomState is two u64 keys
    unsafe { core::mem::transmute::<[u64; 2], std::collections::hash_map::RandomState>([1, 2]) }
}

/// `core::slice::memchr::memchr` switches to a word-at-a-time scan whose start depends on the
/// pointer's alignment (nondeterministic under Kani).  The byte-at-a-time scan is the same
/// function.
pub fn stub_memchr(x: u8, text: &[u8]) -> Option<usize> {
    let mut i = 0;
    while i < text.len() {
        if text[i] == x {
            return Some(i);
        }
        i += 1;
    }
    None
}
