//! csv-core runs in its own reference NFA mode inside the solver: symbolically executing
//! `Reader::build_dfa` (2560 table cells) alone takes >25 minutes.  The NFA and the DFA are the
//! same automaton by csv-core's construction (its test-suite runs both); that equivalence is
//! trusted, not checked here.
pub fn stub_reader_new() -> csv_core::Reader {
    let mut b = csv_core::ReaderBuilder::new();
    b.nfa(true);
    b.build()
}

pub fn stub_build_dfa(_r: &mut csv_core::Reader) {}

/// bincode's `Vec<T>::decode` asks `unty::type_equal::<T, u8>()` (a `TypeId` obtained through a
/// `dyn` call) to pick its bulk-read fast path.  CBMC cannot fold the virtual call, explores both
/// branches and merges them, after which the reader position is no longer a constant and nothing
/// downstream folds.  Comparing the type names is the same predicate for the types involved here
/// and is a constant-data comparison.
pub fn stub_type_equal<Src: ?Sized, Target: ?Sized>() -> bool {
    let a = core::any::type_name::<Src>().as_bytes();
    let b = core::any::type_name::<Target>().as_bytes();
    if a.len() != b.len() {
        return false;
    }
    let mut i = 0;
    while i < a.len() {
        if a[i] != b[i] {
            return false;
        }
        i += 1;
    }
    true
}

/// hashbrown's default hasher state draws its seeds from the OS (`getrandom` -> `syscall`), which
/// Kani does not model.  Fixed seeds: hash *values* are not part of any property here.
pub fn stub_random_state_new() -> ahash::RandomState {
    ahash::RandomState::with_seeds(1, 2, 3, 4)
}
