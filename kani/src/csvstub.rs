//! csv-core runs in its own reference NFA mode inside the solver: symbolically executing
//! `Reader::build_dfa` (2560 table cells) alone takes >25 minutes.  The NFA and the DFA are the
//! same automaton by csv-core's construction (its test-suite runs both); that equivalence is
//! trusted, not checked here.
pub fn stub_reader_new() -> csv_core::Reader {
    let mut b = csv_core::ReaderBuilder::new();
    b.nfa(true);
    b.build()
}

pub fn stub_build_dfa(_r: &mut csv_core::Reader) {}
