//! C06: connection-id remapping never changes tokenization.
use crate::util::*;
use crate::world::*;
use vibrato::dictionary::Dictionary;
use vibrato::tokenizer::Tokenizer;
use vibrato::verif_hooks::*;

extern crate alloc;
/// Error messages are not the subject: `format!` in the error paths returns an empty string.
pub fn stub_format(_args: core::fmt::Arguments<'_>) -> String {
    String::new()
}

/// `m` is a permutation of 1..=len (the valid mappings for a side with len+1 ids).
fn is_perm(m: &[u16]) -> bool {
    let k = m.len();
    let mut seen = [false; 8];
    let mut ok = true;
    for i in 0..k {
        let v = m[i] as usize;
        if v == 0 || v > k || seen[v] {
            ok = false;
        } else {
            seen[v] = true;
        }
    }
    ok
}

#[cfg(kani)]
fn sym_vec_u16(k: usize) -> Vec<u16> {
    let mut v = Vec::with_capacity(k + 1);
    for _ in 0..k {
        v.push(kani::any());
    }
    v
}

/// `ConnIdMapper::from_iter` accepts exactly the pairs of permutations; the i-th listed old id
/// receives new id i (1-based), id 0 stays 0.  Then the matrix connector is permuted consistently.
#[cfg(kani)]
fn mapper_matrix(nr: usize, nl: usize) {
    let mut conn = sym_matrix(nr, nl);
    let mut before = [0i16; 16];
    for i in 0..nr * nl {
        before[i] = conn.verif_data()[i];
    }
    let lmap = sym_vec_u16(nl - 1);
    let rmap = sym_vec_u16(nr - 1);
    let lperm = is_perm(&lmap);
    let rperm = is_perm(&rmap);
    match ConnIdMapper::from_iter(lmap.iter().cloned(), rmap.iter().cloned()) {
        Ok(m) => {
            assert!(lperm && rperm, "a malformed mapping was accepted");
            assert!(m.left(0) == 0 && m.right(0) == 0);
            for i in 0..nl - 1 {
                assert!(m.left(lmap[i]) as usize == i + 1);
            }
            for i in 0..nr - 1 {
                assert!(m.right(rmap[i]) as usize == i + 1);
            }
            conn.map_connection_ids(&m);
            assert!(conn.num_left() == nl && conn.num_right() == nr);
            for r in 0..nr {
                for l in 0..nl {
                    let c = conn.cost(m.right(r as u16), m.left(l as u16));
                    assert!(c == i32::from(before[l * nr + r]), "cost between mapped ids differs from the original cost");
                }
            }
            kani::cover!(m.left(1) != 1);
        }
        Err(_) => {
            assert!(!(lperm && rperm), "a valid pair of permutations was rejected");
            kani::cover!(lperm && !rperm);
        }
    }
    core::mem::forget(conn);
}

//@ c06_mapper_matrix_3x3 {"desc":"from_iter accepts exactly permutation pairs (0, duplicates, out-of-range rejected) and the matrix connector keeps cost(map r, map l) = cost(r, l)","bounds":"3 right ids x 3 left ids; all u16^2 x u16^2 mapping vectors","symbolic":"both mapping vectors (valid and invalid), all matrix cells","functions":["ConnIdMapper::from_iter","ConnIdMapper::parse","MatrixConnector::map_connection_ids","MatrixConnector::cost","ConnIdMapper::left","ConnIdMapper::right"],"unwind":11,"fs":2048,"timeout":900,"stubs":["alloc::fmt::format"]}
#[cfg(kani)]
#[kani::proof]
#[kani::stub(alloc::fmt::format, stub_format)]
fn c06_mapper_matrix_3x3() {
    mapper_matrix(3, 3)
}

//@ c06_mapper_matrix_2x4 {"tier":"thorough","desc":"as c06_mapper_matrix_3x3 on a non-square matrix","bounds":"2 right ids x 4 left ids","symbolic":"mapping vectors, matrix cells","functions":["ConnIdMapper::from_iter","MatrixConnector::map_connection_ids","MatrixConnector::cost"],"unwind":10,"fs":2048,"timeout":1200,"stubs":["alloc::fmt::format"]}
#[cfg(kani)]
#[kani::proof]
#[kani::stub(alloc::fmt::format, stub_format)]
fn c06_mapper_matrix_2x4() {
    mapper_matrix(2, 4)
}

/// A valid permutation of 1..=k chosen by the solver.
#[cfg(kani)]
fn sym_perm(k: usize) -> Vec<u16> {
    let v = sym_vec_u16(k);
    kani::assume(is_perm(&v));
    v
}

const S6: Spec = Spec { sys: L_A_AB, user: Some(L_B), cats: CATS_MIX, unk_mult: &[1, 1, 1], nr: 3, nl: 3 };

#[cfg(kani)]
fn snapshot_params(d: &Dictionary, out: &mut [WordParam; 8]) -> usize {
    let mut k = 0;
    let sl = d.verif_system_lexicon();
    for i in 0..sl.verif_num_words() {
        out[k] = sl.word_param(WordIdx { lex_type: LexType::System, word_id: i as u32 });
        k += 1;
    }
    if let Some(ul) = d.verif_user_lexicon() {
        for i in 0..ul.verif_num_words() {
            out[k] = ul.word_param(WordIdx { lex_type: LexType::User, word_id: i as u32 });
            k += 1;
        }
    }
    let es = d.verif_unk_handler().verif_entries();
    for e in es.iter() {
        out[k] = WordParam::new(e.left_id, e.right_id, e.word_cost);
        k += 1;
    }
    k
}

/// The whole-dictionary mapping for a *concrete* permutation pair (the permutation is the
/// structure of the instance; all entry parameters and matrix cells are symbolic).  Non-involutive
/// permutations (3-cycles) are included on purpose: a mapping applied in the wrong direction is
/// invisible under swaps.
#[cfg(kani)]
fn dict_map_concrete<const NL: usize, const NR: usize>(spec: &Spec, lmap: [u16; NL], rmap: [u16; NR]) {
    let (nl, nr) = (NL + 1, NR + 1);
    let d = dict_of(spec);
    let mut before = [WordParam::default(); 8];
    let nb = snapshot_params(&d, &mut before);
    let mut cost_before = [[0i32; 4]; 4];
    for r in 0..nr {
        for l in 0..nl {
            cost_before[r][l] = d.verif_conn_cost(r as u16, l as u16);
        }
    }
    let d = match d.map_connection_ids_from_iter(lmap.iter().cloned(), rmap.iter().cloned()) {
        Ok(d) => d,
        Err(_) => {
            assert!(false, "a valid pair of permutations was rejected");
            return;
        }
    };
    // new id of an old id, from the mapping convention (i-th line names the old id that gets id i)
    let mut newl = [0u16; 4];
    let mut newr = [0u16; 4];
    for i in 0..NL {
        newl[lmap[i] as usize] = (i + 1) as u16;
    }
    for i in 0..NR {
        newr[rmap[i] as usize] = (i + 1) as u16;
    }
    let mut after = [WordParam::default(); 8];
    let na = snapshot_params(&d, &mut after);
    assert!(na == nb);
    for k in 0..8 {
        if k < nb {
            assert!(after[k].word_cost == before[k].word_cost);
            for old in 0..4 {
                if old < nl && before[k].left_id as usize == old {
                    assert!(after[k].left_id == newl[old], "a left id was not mapped consistently");
                }
                if old < nr && before[k].right_id as usize == old {
                    assert!(after[k].right_id == newr[old], "a right id was not mapped consistently");
                }
            }
        }
    }
    // the dictionary came back inside a `Result`: go to the matrix arm directly (a lost enum
    // discriminant makes CBMC explore the raw/dual arms of every dispatch)
    let mc = matrix_of(d.verif_connector());
    for r in 0..nr {
        for l in 0..nl {
            assert!(mc.cost(newr[r], newl[l]) == cost_before[r][l],
                "connection cost between mapped ids differs from the original");
        }
    }
    assert!(d.verif_mapper().is_some());
    kani::cover!(before[0].left_id == 1 && before[0].right_id == 1);
    core::mem::forget(d);
}

const S6C: Spec = Spec { sys: L_A_AB, user: Some(L_B), cats: CATS_MIX, unk_mult: &[1, 1, 1], nr: 4, nl: 4 };
const S6R: Spec = Spec { sys: L_A_AB, user: Some(L_B), cats: CATS_MIX, unk_mult: &[1, 1, 1], nr: 2, nl: 4 };

//@ c06_dict_map_cycles {"desc":"Dictionary::map_connection_ids_from_iter with 3-cycles on both sides: every system/user/unknown entry gets the mapped ids with unchanged cost, the connector answers cost(map r, map l) = cost(r,l) for all 16 pairs incl. id 0, the mapper is retained","bounds":"dictionary S6C: system {a,ab}, user {b}, 3 unk entries, 4x4 matrix; left mapping [2,3,1], right mapping [3,1,2]","symbolic":"all params, matrix cells","functions":["Dictionary::map_connection_ids_from_iter","Lexicon::map_connection_ids","WordParams::map_connection_ids","UnkHandler::map_connection_ids","ConnectorWrapper::map_connection_ids","MatrixConnector::map_connection_ids","ConnIdMapper::from_iter"],"unwind":10,"fs":2048,"timeout":1200,"stubs":["alloc::fmt::format"]}
#[cfg(kani)]
#[kani::proof]
#[kani::stub(alloc::fmt::format, stub_format)]
fn c06_dict_map_cycles() {
    dict_map_concrete(&S6C, [2u16, 3, 1], [3u16, 1, 2])
}

//@ c06_dict_map_nonsquare {"desc":"whole-dictionary mapping on a non-square connector (2 right ids, 4 left ids), 3-cycle on the left ids","bounds":"dictionary S6R: 2x4 matrix; left mapping [3,1,2], right mapping [1]","symbolic":"all params, matrix cells","functions":["Dictionary::map_connection_ids_from_iter","MatrixConnector::map_connection_ids","UnkHandler::map_connection_ids"],"unwind":10,"fs":2048,"timeout":1200,"stubs":["alloc::fmt::format"]}
#[cfg(kani)]
#[kani::proof]
#[kani::stub(alloc::fmt::format, stub_format)]
fn c06_dict_map_nonsquare() {
    dict_map_concrete(&S6R, [3u16, 1, 2], [1u16])
}

//@ c06_dict_map_swaps {"tier":"thorough","desc":"whole-dictionary mapping with swaps on a 3x3 connector","bounds":"dictionary S6; mappings [2,1] and [2,1]","symbolic":"all params, matrix cells","functions":["Dictionary::map_connection_ids_from_iter"],"unwind":10,"fs":2048,"timeout":1200,"stubs":["alloc::fmt::format"]}
#[cfg(kani)]
#[kani::proof]
#[kani::stub(alloc::fmt::format, stub_format)]
fn c06_dict_map_swaps() {
    dict_map_concrete(&S6, [2u16, 1], [2u16, 1])
}

/// Mappings of the wrong length, or mentioning 0 / duplicates / out-of-range ids, are rejected
/// with an error rather than applied or panicking.
#[cfg(kani)]
fn dict_map_malformed(klen_l: usize, klen_r: usize) {
    let d = dict_of(&S6);
    let lmap = sym_vec_u16(klen_l);
    let rmap = sym_vec_u16(klen_r);
    let valid = klen_l == 2 && klen_r == 2 && is_perm(&lmap) && is_perm(&rmap);
    let r = d.map_connection_ids_from_iter(lmap.iter().cloned(), rmap.iter().cloned());
    assert!(r.is_ok() == valid, "malformed mapping not rejected with an error (or valid one rejected)");
    kani::cover!(r.is_err());
    core::mem::forget(r);
}

//@ c06_dict_map_malformed_len {"desc":"mapping vectors of the right length: Ok iff both are permutations","bounds":"S6 (3 left, 3 right ids); both vectors of length 2, any u16","symbolic":"mapping vectors, params, matrix","functions":["Dictionary::map_connection_ids_from_iter","ConnIdMapper::from_iter"],"unwind":8,"fs":2048,"timeout":1200,"stubs":["alloc::fmt::format"]}
#[cfg(kani)]
#[kani::proof]
#[kani::stub(alloc::fmt::format, stub_format)]
fn c06_dict_map_malformed_len() {
    dict_map_malformed(2, 2)
}

//@ c06_dict_map_short_left {"desc":"a left mapping that is one id short must be rejected with an error, not panic","bounds":"S6; left vector length 1, right length 2","symbolic":"mapping vectors, params, matrix","functions":["Dictionary::map_connection_ids_from_iter","ConnIdMapper::from_iter","MatrixConnector::map_connection_ids","WordParams::map_connection_ids"],"unwind":8,"fs":2048,"timeout":1200,"stubs":["alloc::fmt::format"]}
#[cfg(kani)]
#[kani::proof]
#[kani::stub(alloc::fmt::format, stub_format)]
fn c06_dict_map_short_left() {
    dict_map_malformed(1, 2)
}

//@ c06_dict_map_long_right {"desc":"a right mapping that is one id too long must be rejected with an error, not panic","bounds":"S6; left vector length 2, right length 3","symbolic":"mapping vectors, params, matrix","functions":["Dictionary::map_connection_ids_from_iter","ConnIdMapper::from_iter","MatrixConnector::map_connection_ids"],"unwind":8,"fs":2048,"timeout":1200,"stubs":["alloc::fmt::format"]}
#[cfg(kani)]
#[kani::proof]
#[kani::stub(alloc::fmt::format, stub_format)]
fn c06_dict_map_long_right() {
    dict_map_malformed(2, 3)
}

//@ c06_dict_map_empty {"tier":"thorough","desc":"empty mapping iterators must be rejected with an error","bounds":"S6; both vectors empty","symbolic":"params, matrix","functions":["Dictionary::map_connection_ids_from_iter"],"unwind":8,"fs":2048,"timeout":1200,"stubs":["alloc::fmt::format"],"covers":"none"}
#[cfg(kani)]
#[kani::proof]
#[kani::stub(alloc::fmt::format, stub_format)]
fn c06_dict_map_empty() {
    dict_map_malformed(0, 0)
}

/// Tokenization before and after mapping: same EOS cost, same spans, same entries, ids mapped.
#[cfg(kani)]
fn tokens_invariant(chars: &[char], text: &'static str, twice: bool) {
    let d0 = dict_of(&S6);
    // concrete permutations (structure); every cost, id and matrix cell is symbolic
    let lmap = [2u16, 1];
    let rmap = [2u16, 1];
    // unmapped run
    let tok0_owned = Tokenizer::new(d0);
    let tok0 = &tok0_owned;
    let mut w0 = tok0.new_worker();
    w0.reset_sentence(text);
    w0.tokenize();
    // the same dictionary contents, mapped (the dictionary is consumed by mapping, so the
    // second copy is rebuilt from the first one's values)
    let d1 = clone_dict(tok0.dictionary(), &S6);
    let d1 = match d1.map_connection_ids_from_iter(lmap.iter().cloned(), rmap.iter().cloned()) {
        Ok(d) => d,
        Err(_) => unreachable!(),
    };
    let d1 = if twice {
        let d1 = rebuild(&d1, &S6);
        let l2 = [2u16, 1];
        let r2 = [1u16, 2];
        match d1.map_connection_ids_from_iter(l2.iter().cloned(), r2.iter().cloned()) {
            Ok(d) => d,
            Err(_) => unreachable!(),
        }
    } else {
        d1
    };
    // the mapped dictionary came back inside a `Result`: reassemble the same state field by field
    // so that the connector dispatch in `tokenize` folds again
    let d1 = rebuild(&d1, &S6);
    let tok1_owned = Tokenizer::new(d1);
    let tok1 = &tok1_owned;
    let mut w1 = tok1.new_worker();
    w1.reset_sentence(text);
    w1.tokenize();
    let n = chars.len();
    // minimum costs agree (which of several equally cheap paths is returned is unspecified)
    let e0 = w0.verif_lattice().verif_eos().unwrap().min_cost;
    let e1 = w1.verif_lattice().verif_eos().unwrap().min_cost;
    assert!(e0 == e1, "the optimal cost changed under id remapping");
    // candidate sets per boundary agree up to the id permutation: same count, same word, same prefix cost
    let l0 = w0.verif_lattice().verif_ends();
    let l1 = w1.verif_lattice().verif_ends();
    for b in 1..=n {
        assert!(l0[b].len() == l1[b].len());
        for j in 0..4 {
            if j < l0[b].len() {
                assert!(l0[b][j].word_id == l1[b][j].word_id && l0[b][j].lex_type == l1[b][j].lex_type);
                assert!(l0[b][j].min_cost == l1[b][j].min_cost, "a prefix minimum changed under id remapping");
                assert!(l0[b][j].start_word == l1[b][j].start_word);
            }
        }
    }
    kani::cover!(w0.num_tokens() == 1);
    core::mem::forget(w0);
    core::mem::forget(w1);
    core::mem::forget(tok0_owned);
    core::mem::forget(tok1_owned);
}

/// The same dictionary state, reassembled from its fields (including the retained mapper).
#[cfg(kani)]
pub fn rebuild(d: &Dictionary, s: &Spec) -> Dictionary {
    let sys = clone_lex(d.verif_system_lexicon(), &s.sys, LexType::System);
    let user = match d.verif_user_lexicon() {
        Some(u) => Some(clone_lex(u, &s.user.unwrap(), LexType::User)),
        None => None,
    };
    let mc = matrix_of(d.verif_connector());
    let mut data = Vec::with_capacity(s.nr * s.nl);
    for l in 0..s.nl {
        for r in 0..s.nr {
            data.push(mc.cost(r as u16, l as u16) as i16);
        }
    }
    let es = d.verif_unk_handler().verif_entries();
    let mut entries = Vec::with_capacity(es.len());
    for (k, e) in es.iter().enumerate() {
        entries.push(UnkEntry { cate_id: e.cate_id, left_id: e.left_id, right_id: e.right_id, word_cost: e.word_cost, feature: feature_of('k', k) });
    }
    let os = d.verif_unk_handler().verif_offsets();
    let mut offsets = Vec::with_capacity(os.len());
    for &o in os.iter() {
        offsets.push(o);
    }
    let mapper = match d.verif_mapper() {
        Some(m) => {
            let mut l = Vec::with_capacity(s.nl);
            let mut r = Vec::with_capacity(s.nr);
            for i in 0..s.nl {
                l.push(m.left(i as u16));
            }
            for i in 0..s.nr {
                r.push(m.right(i as u16));
            }
            Some(ConnIdMapper::new(l, r))
        }
        None => None,
    };
    Dictionary::verif_from_parts(sys, user, ConnectorWrapper::Matrix(MatrixConnector::new(data, s.nr, s.nl)), mapper,
        char_prop_of(&s.cats), UnkHandler::verif_from_parts(offsets, entries))
}

/// Rebuilds a dictionary with the same (symbolic) values as `d` (Dictionary is not Clone).
#[cfg(kani)]
pub fn clone_dict(d: &Dictionary, s: &Spec) -> Dictionary {
    let sys = clone_lex(d.verif_system_lexicon(), &s.sys, LexType::System);
    let user = match d.verif_user_lexicon() {
        Some(u) => Some(clone_lex(u, &s.user.unwrap(), LexType::User)),
        None => None,
    };
    let mut data = Vec::with_capacity(s.nr * s.nl);
    for l in 0..s.nl {
        for r in 0..s.nr {
            data.push(d.verif_conn_cost(r as u16, l as u16) as i16);
        }
    }
    let es = d.verif_unk_handler().verif_entries();
    let mut entries = Vec::with_capacity(es.len());
    for (k, e) in es.iter().enumerate() {
        entries.push(UnkEntry { cate_id: e.cate_id, left_id: e.left_id, right_id: e.right_id, word_cost: e.word_cost, feature: feature_of('k', k) });
    }
    let os = d.verif_unk_handler().verif_offsets();
    let mut offsets = Vec::with_capacity(os.len());
    for &o in os.iter() {
        offsets.push(o);
    }
    Dictionary::verif_from_parts(
        sys,
        user,
        ConnectorWrapper::Matrix(MatrixConnector::new(data, s.nr, s.nl)),
        None,
        char_prop_of(&s.cats),
        UnkHandler::verif_from_parts(offsets, entries),
    )
}

#[cfg(kani)]
fn clone_lex(l: &Lexicon, ls: &LexSpec, t: LexType) -> Lexicon {
    let mut params = Vec::with_capacity(ls.nwords);
    let mut feats = Vec::with_capacity(ls.nwords);
    for i in 0..ls.nwords {
        params.push(l.word_param(WordIdx { lex_type: t, word_id: i as u32 }));
        feats.push(feature_of(if t == LexType::User { 'u' } else { 's' }, i));
    }
    Lexicon::verif_from_parts(ls.trie, copy_u32(ls.post), params, feats, t)
}

//@ c06_tokens_invariant_ab {"tier":"thorough","desc":"tokenizing \"ab\" with the mapped dictionary gives the same optimal cost and, per boundary, the same candidates with the same prefix minima as the unmapped one, for swapped ids on both sides","bounds":"N=2; dictionary S6 (system {a,ab}, user {b}, 3x3 matrix); mappings [2,1],[2,1]","symbolic":"all costs/ids, matrix","functions":["Dictionary::map_connection_ids_from_iter","Worker::tokenize","Tokenizer::build_lattice","Lattice::*"],"unwind":8,"fs":2048,"timeout":1800,"mem_gb":20,"stubs":["alloc::fmt::format"]}
#[cfg(kani)]
#[kani::proof]
#[kani::stub(alloc::fmt::format, stub_format)]
fn c06_tokens_invariant_ab() {
    tokens_invariant(&[A, B], "\u{1}\u{2}", false)
}

//@ c06_tokens_invariant_twice {"tier":"thorough","core":false,"desc":"as c06_tokens_invariant_ab after two successive mappings","bounds":"N=2; S6; two mappings","symbolic":"costs, ids, matrix","functions":["Dictionary::map_connection_ids_from_iter","Worker::tokenize"],"unwind":8,"fs":2048,"timeout":2400,"mem_gb":24,"stubs":["alloc::fmt::format"]}
#[cfg(kani)]
#[kani::proof]
#[kani::stub(alloc::fmt::format, stub_format)]
fn c06_tokens_invariant_twice() {
    tokens_invariant(&[A, B], "\u{1}\u{2}", true)
}

//@ c06_mapper_twin {"expect":"fail","desc":"vacuity twin: claims every accepted mapping is the identity","bounds":"3x3","symbolic":"mapping vectors","functions":["ConnIdMapper::from_iter"],"unwind":5,"fs":2048,"timeout":600,"covers":"none","stubs":["alloc::fmt::format"]}
#[cfg(kani)]
#[kani::proof]
#[kani::stub(alloc::fmt::format, stub_format)]
fn c06_mapper_twin() {
    let lmap = sym_vec_u16(2);
    let rmap = sym_vec_u16(2);
    if let Ok(m) = ConnIdMapper::from_iter(lmap.iter().cloned(), rmap.iter().cloned()) {
        assert!(m.left(1) == 1, "VACUITY: non-identity permutations are accepted");
        core::mem::forget(m);
    }
}

// ---------------------------------------------------------------------------------------
// raw and dual connectors
// ---------------------------------------------------------------------------------------
#[cfg(kani)]
fn sym_block() -> ([U31; 8], U31x8) {
    let mut a = [U31::default(); 8];
    for i in 0..8 {
        let x: u32 = kani::any();
        kani::assume(x <= 0x7fff_ffff);
        a[i] = U31::new(x).unwrap();
    }
    (a, U31x8::verif_from_array(a))
}

fn same_block(x: &U31x8, a: &[U31; 8]) -> bool {
    let b = x.verif_to_array();
    let mut ok = true;
    for i in 0..8 {
        if b[i].get() != a[i].get() {
            ok = false;
        }
    }
    ok
}

//@ c06_raw_connector_mapping {"desc":"RawConnector::map_connection_ids moves every id's feature rows to its new id (both sides, 3-cycles), so cost(map r, map l) = cost(r, l) for any scorer","bounds":"4 right ids x 4 left ids, 1 block (8 lanes) per id; right mapping [2,3,1], left mapping [3,1,2]","symbolic":"all feature rows","functions":["RawConnector::map_connection_ids","RawConnector::num_left","RawConnector::num_right","ConnIdMapper::from_iter"],"unwind":10,"fs":2048,"timeout":1200,"stubs":["alloc::fmt::format"]}
#[cfg(kani)]
#[kani::proof]
#[kani::stub(alloc::fmt::format, stub_format)]
fn c06_raw_connector_mapping() {
    let mut rr = [[U31::default(); 8]; 4];
    let mut lr = [[U31::default(); 8]; 4];
    let mut rv = Vec::with_capacity(4);
    let mut lv = Vec::with_capacity(4);
    for i in 0..4 {
        let (a, x) = sym_block();
        rr[i] = a;
        rv.push(x);
        let (b, y) = sym_block();
        lr[i] = b;
        lv.push(y);
    }
    let mut conn = RawConnector::new(rv, lv, 1, Scorer::verif_from_parts(Vec::new(), Vec::new(), Vec::new()));
    let lmap = [3u16, 1, 2];
    let rmap = [2u16, 3, 1];
    let m = match ConnIdMapper::from_iter(lmap.iter().cloned(), rmap.iter().cloned()) {
        Ok(m) => m,
        Err(_) => unreachable!(),
    };
    conn.map_connection_ids(&m);
    assert!(conn.num_left() == 4 && conn.num_right() == 4);
    for old in 0..4 {
        let nr = m.right(old as u16) as usize;
        let nl = m.left(old as u16) as usize;
        assert!(same_block(&conn.verif_right_feat_ids()[nr], &rr[old]), "a right id's feature row did not move with the id");
        assert!(same_block(&conn.verif_left_feat_ids()[nl], &lr[old]), "a left id's feature row did not move with the id");
    }
    assert!(m.right(2) == 1 && m.left(3) == 1);
    kani::cover!(rr[1][0].get() != rr[2][0].get());
    core::mem::forget(conn);
}

//@ c06_dual_connector_mapping {"desc":"DualConnector::map_connection_ids: raw rows and matrix classes move with the ids and the renumbered class matrix gives the same matrix part for every pair","bounds":"3 right ids x 3 left ids, 2x2 class matrix, swaps on both sides","symbolic":"class maps (onto), matrix cells, raw rows","functions":["DualConnector::map_connection_ids","MatrixConnector::map_connection_ids","DualConnector::cost"],"unwind":10,"fs":2048,"timeout":1800,"mem_gb":16,"stubs":["alloc::fmt::format"]}
#[cfg(kani)]
#[kani::proof]
#[kani::stub(alloc::fmt::format, stub_format)]
fn c06_dual_connector_mapping() {
    let m0 = sym_matrix(2, 2);
    // class maps as the builder produces them: id 0 is class 0, every class is used
    let rmap_c = [0u16, any_below_u16(2), any_below_u16(2)];
    let lmap_c = [0u16, any_below_u16(2), any_below_u16(2)];
    kani::assume(rmap_c[1] == 1 || rmap_c[2] == 1);
    kani::assume(lmap_c[1] == 1 || lmap_c[2] == 1);
    let mut rr = [[U31::default(); 8]; 3];
    let mut lr = [[U31::default(); 8]; 3];
    let mut rv = Vec::with_capacity(3);
    let mut lv = Vec::with_capacity(3);
    for i in 0..3 {
        let (a, x) = sym_block();
        rr[i] = a;
        rv.push(x);
        let (b, y) = sym_block();
        lr[i] = b;
        lv.push(y);
    }
    let mut before = [[0i32; 3]; 3];
    for r in 0..3 {
        for l in 0..3 {
            before[r][l] = m0.cost(rmap_c[r], lmap_c[l]);
        }
    }
    let mut conn = DualConnector::verif_from_parts(m0, vec![rmap_c[0], rmap_c[1], rmap_c[2]], vec![lmap_c[0], lmap_c[1], lmap_c[2]], rv, lv,
        Scorer::verif_from_parts(Vec::new(), Vec::new(), Vec::new()));
    let m = match ConnIdMapper::from_iter([2u16, 1].iter().cloned(), [2u16, 1].iter().cloned()) {
        Ok(m) => m,
        Err(_) => unreachable!(),
    };
    conn.map_connection_ids(&m);
    assert!(conn.num_left() == 3 && conn.num_right() == 3);
    for old in 0..3 {
        let nr = m.right(old as u16) as usize;
        let nl = m.left(old as u16) as usize;
        assert!(same_block(&conn.verif_right_feat_ids()[nr], &rr[old]));
        assert!(same_block(&conn.verif_left_feat_ids()[nl], &lr[old]));
    }
    // matrix part through the (renumbered) classes; the raw scorer is empty, so cost = matrix part
    for r in 0..3 {
        for l in 0..3 {
            let c = conn.cost(m.right(r as u16), m.left(l as u16));
            assert!(c == before[r][l], "matrix part changed under remapping");
        }
    }
    kani::cover!(rmap_c[1] == 1 && rmap_c[2] == 0);
    core::mem::forget(conn);
}

//@ c06_dual_connector_mapping_shared {"desc":"DualConnector::map_connection_ids when several ids share a matrix class and the renumbering of the classes (order of first occurrence after the permutation) moves a shared class: every id of the class must follow","bounds":"4 right ids x 4 left ids, 3x3 class matrix, every class used, 3-cycles on both sides","symbolic":"class maps (onto), matrix cells, raw rows","functions":["DualConnector::map_connection_ids","MatrixConnector::map_connection_ids","DualConnector::cost"],"unwind":10,"fs":2048,"timeout":1800,"mem_gb":16,"stubs":["alloc::fmt::format"]}
#[cfg(kani)]
#[kani::proof]
#[kani::stub(alloc::fmt::format, stub_format)]
fn c06_dual_connector_mapping_shared() {
    let m0 = sym_matrix(3, 3);
    // class maps as the builder produces them: id 0 is class 0, every class is used
    let rmap_c = [0u16, any_below_u16(3), any_below_u16(3), any_below_u16(3)];
    let lmap_c = [0u16, any_below_u16(3), any_below_u16(3), any_below_u16(3)];
    kani::assume((rmap_c[1] == 1 || rmap_c[2] == 1 || rmap_c[3] == 1) && (rmap_c[1] == 2 || rmap_c[2] == 2 || rmap_c[3] == 2));
    kani::assume((lmap_c[1] == 1 || lmap_c[2] == 1 || lmap_c[3] == 1) && (lmap_c[1] == 2 || lmap_c[2] == 2 || lmap_c[3] == 2));
    let mut rr = [[U31::default(); 8]; 4];
    let mut lr = [[U31::default(); 8]; 4];
    let mut rv = Vec::with_capacity(4);
    let mut lv = Vec::with_capacity(4);
    for i in 0..4 {
        let (a, x) = sym_block();
        rr[i] = a;
        rv.push(x);
        let (b, y) = sym_block();
        lr[i] = b;
        lv.push(y);
    }
    let mut before = [[0i32; 4]; 4];
    for r in 0..4 {
        for l in 0..4 {
            before[r][l] = m0.cost(rmap_c[r], lmap_c[l]);
        }
    }
    let mut conn = DualConnector::verif_from_parts(m0, vec![rmap_c[0], rmap_c[1], rmap_c[2], rmap_c[3]], vec![lmap_c[0], lmap_c[1], lmap_c[2], lmap_c[3]], rv, lv,
        Scorer::verif_from_parts(Vec::new(), Vec::new(), Vec::new()));
    let m = match ConnIdMapper::from_iter([2u16, 3, 1].iter().cloned(), [3u16, 1, 2].iter().cloned()) {
        Ok(m) => m,
        Err(_) => unreachable!(),
    };
    conn.map_connection_ids(&m);
    assert!(conn.num_left() == 4 && conn.num_right() == 4);
    for old in 0..4 {
        let nr = m.right(old as u16) as usize;
        let nl = m.left(old as u16) as usize;
        assert!(same_block(&conn.verif_right_feat_ids()[nr], &rr[old]));
        assert!(same_block(&conn.verif_left_feat_ids()[nl], &lr[old]));
    }
    // matrix part through the (renumbered) classes; the raw scorer is empty, so cost = matrix part
    for r in 0..4 {
        for l in 0..4 {
            let c = conn.cost(m.right(r as u16), m.left(l as u16));
            assert!(c == before[r][l], "matrix part changed under remapping");
        }
    }
    kani::cover!(rmap_c[1] == 2 && rmap_c[2] == 1 && rmap_c[3] == 2);
    core::mem::forget(conn);
}


//@ c06_two_mappings_compose {"desc":"after two successive mappings every entry carries the composed ids, the connector answers cost(m2(m1 r), m2(m1 l)) = cost(r,l), and the retained mapper is the composition - the mechanism by which a user lexicon loaded later (written with original ids) is translated","bounds":"dictionary S6C (4x4 matrix, system {a,ab}, user {b}, 3 unknown entries); mappings [2,3,1]/[3,1,2] then [1,3,2]/[2,1,3]","symbolic":"all params, matrix cells","functions":["Dictionary::map_connection_ids_from_iter","Dictionary::mapper","ConnIdMapper::left","ConnIdMapper::right"],"unwind":10,"fs":2048,"timeout":1800,"mem_gb":16,"stubs":["alloc::fmt::format"]}
#[cfg(kani)]
#[kani::proof]
#[kani::stub(alloc::fmt::format, stub_format)]
fn c06_two_mappings_compose() {
    let d = dict_of(&S6C);
    let mut before = [WordParam::default(); 8];
    let nb = snapshot_params(&d, &mut before);
    let mut cost_before = [[0i32; 4]; 4];
    for r in 0..4 {
        for l in 0..4 {
            cost_before[r][l] = d.verif_conn_cost(r as u16, l as u16);
        }
    }
    let (l1, r1) = ([2u16, 3, 1], [3u16, 1, 2]);
    let (l2, r2) = ([1u16, 3, 2], [2u16, 1, 3]);
    let d = match d.map_connection_ids_from_iter(l1.iter().cloned(), r1.iter().cloned()) {
        Ok(d) => d,
        Err(_) => unreachable!(),
    };
    // The dictionary came back inside a `Result` (connector discriminant no longer a constant
    // for CBMC): rebuild the same state field by field before the second mapping.
    let d = rebuild(&d, &S6C);
    let d = match d.map_connection_ids_from_iter(l2.iter().cloned(), r2.iter().cloned()) {
        Ok(d) => d,
        Err(_) => unreachable!(),
    };
    // new id of an old id under each mapping, then composed
    let (mut a_l, mut a_r, mut b_l, mut b_r) = ([0u16; 4], [0u16; 4], [0u16; 4], [0u16; 4]);
    for i in 0..3 {
        a_l[l1[i] as usize] = (i + 1) as u16;
        a_r[r1[i] as usize] = (i + 1) as u16;
        b_l[l2[i] as usize] = (i + 1) as u16;
        b_r[r2[i] as usize] = (i + 1) as u16;
    }
    let mut cl = [0u16; 4];
    let mut cr = [0u16; 4];
    for id in 0..4 {
        cl[id] = b_l[a_l[id] as usize];
        cr[id] = b_r[a_r[id] as usize];
    }
    let mut after = [WordParam::default(); 8];
    let na = snapshot_params(&d, &mut after);
    assert!(na == nb);
    for k in 0..8 {
        if k < nb {
            for old in 0..4 {
                if before[k].left_id as usize == old {
                    assert!(after[k].left_id == cl[old], "an entry does not carry the composed left id");
                }
                if before[k].right_id as usize == old {
                    assert!(after[k].right_id == cr[old], "an entry does not carry the composed right id");
                }
            }
        }
    }
    let mc = matrix_of(d.verif_connector());
    for r in 0..4 {
        for l in 0..4 {
            assert!(mc.cost(cr[r], cl[l]) == cost_before[r][l], "connection cost changed under two mappings");
        }
    }
    // the retained mapper must translate *original* ids to *current* ids
    let m = match d.verif_mapper() {
        Some(m) => m,
        None => unreachable!(),
    };
    for id in 0..4 {
        assert!(m.left(id as u16) == cl[id], "the retained mapper is not the composition of the two mappings (left ids)");
        assert!(m.right(id as u16) == cr[id], "the retained mapper is not the composition of the two mappings (right ids)");
    }
    kani::cover!(before[0].left_id == 2);
    core::mem::forget(d);
}
