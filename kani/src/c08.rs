//! C08: a user lexicon adds candidates and can be replaced or cleared.
//!
//! Reachable part: equivalence (in candidates and optimal cost) of "system {a} + user {ab}" with
//! "system {a,ab}" for symbolic parameters, user words reported as user-lexicon entries, and
//! clearing with `None`.  Loading a user lexicon from CSV text inside the solver needs
//! `WordMapBuilder` (BTreeMap) + the crawdad builder, which do not fold; `c08_replace_after_mapping`
//! therefore runs the real `reset_user_lexicon_from_reader` / `parse_csv` with the trie builder
//! (`Lexicon::from_entries`) stubbed by a natively pre-built trie.
use crate::util::*;
use crate::world::*;
use vibrato::dictionary::Dictionary;
use vibrato::tokenizer::Tokenizer;
use vibrato::verif_hooks::*;

const S_USER: Spec = Spec { sys: L_A, user: Some(L_AB), cats: CATS_MIX, unk_mult: &[1, 1, 1], nr: 2, nl: 2 };
const S_SYS: Spec = Spec { sys: L_A_AB, user: None, cats: CATS_MIX, unk_mult: &[1, 1, 1], nr: 2, nl: 2 };

//@ c08_user_equals_extended_system {"desc":"tokenizing \"ab\" with system {a} + user {ab} is equivalent in candidates and optimal cost to system {a,ab} with the same parameters; the added word is a user-lexicon candidate, system words stay available","bounds":"N=2; 2x2 matrix; 3 unknown entries","symbolic":"all costs, ids, matrix cells (shared by both dictionaries)","functions":["Tokenizer::add_lattice_edges","Dictionary::user_lexicon","Lexicon::common_prefix_iterator","Lattice::insert_node","Lattice::insert_eos"],"fs":2048,"unwind":7,"timeout":1800,"mem_gb":20}
#[cfg(kani)]
#[kani::proof]
fn c08_user_equals_extended_system() {
    user_vs_extended(&S_USER, &S_SYS)
}

const S_USERH: Spec = Spec { sys: L_A, user: Some(L_AB_AB), cats: CATS_MIX, unk_mult: &[1, 1, 1], nr: 2, nl: 2 };
const S_SYSH: Spec = Spec { sys: L_A_AB_AB, user: None, cats: CATS_MIX, unk_mult: &[1, 1, 1], nr: 2, nl: 2 };

//@ c08_user_homographs {"desc":"two user rows sharing a surface are two candidates, exactly like the same rows in the system lexicon: system {a} + user {ab,ab} vs system {a,ab,ab}","bounds":"N=2 \"ab\"; 2x2 matrix; 3 unknown entries","symbolic":"all costs, ids, matrix cells (shared)","functions":["Tokenizer::add_lattice_edges","Lexicon::common_prefix_iterator","Postings::ids"],"fs":2048,"unwind":8,"timeout":1800,"mem_gb":20}
#[cfg(kani)]
#[kani::proof]
fn c08_user_homographs() {
    user_vs_extended(&S_USERH, &S_SYSH)
}

/// letters are *not* invoked when a lexicon word matched (invoke=0): a user match must suppress
/// unknown words exactly like a system match
pub const S_USER0: Spec = Spec { sys: L_B, user: Some(L_AB), cats: CATS_CHAIN, unk_mult: &[1, 1, 1], nr: 2, nl: 2 };
pub const S_SYS0: Spec = Spec { sys: L_B_AB, user: None, cats: CATS_CHAIN, unk_mult: &[1, 1, 1], nr: 2, nl: 2 };

//@ c08_user_match_suppresses_unknown {"desc":"with invoke=0 a user-lexicon match suppresses unknown words exactly as the same row in the system lexicon would: system {b} + user {ab} vs system {b,ab}","bounds":"N=2 \"ab\"; categories with invoke=0 for letters; 2x2 matrix","symbolic":"all costs, ids, matrix cells (shared)","functions":["Tokenizer::add_lattice_edges","UnkHandler::gen_unk_words","Lexicon::common_prefix_iterator"],"fs":2048,"unwind":7,"timeout":1800,"mem_gb":20}
#[cfg(kani)]
#[kani::proof]
fn c08_user_match_suppresses_unknown() {
    user_vs_extended(&S_USER0, &S_SYS0)
}

/// `su`: system lexicon with one word (id 0) + user lexicon of k rows with surface `ab` (ids
/// 0..k); `ss`: system lexicon with the same word as id 0 and the k rows as ids 1..=k.
#[cfg(kani)]
pub fn user_vs_extended(su: &Spec, ss: &Spec) {
    let k = su.user.unwrap().nwords;
    let du = dict_of(su);
    // the second dictionary takes every value from the first
    let pa = du.verif_system_lexicon().word_param(WordIdx { lex_type: LexType::System, word_id: 0 });
    let mut params = Vec::with_capacity(1 + k);
    params.push(pa);
    let mut feats = Vec::with_capacity(1 + k);
    feats.push(feature_of('s', 0));
    for i in 0..k {
        params.push(du.verif_user_lexicon().unwrap().word_param(WordIdx { lex_type: LexType::User, word_id: i as u32 }));
        feats.push(feature_of('s', 1 + i));
    }
    let sys = Lexicon::verif_from_parts(ss.sys.trie, copy_u32(ss.sys.post), params, feats, LexType::System);
    let mut data = Vec::with_capacity(4);
    for l in 0..2 {
        for r in 0..2 {
            data.push(du.verif_conn_cost(r as u16, l as u16) as i16);
        }
    }
    let es = du.verif_unk_handler().verif_entries();
    let mut entries = Vec::with_capacity(3);
    for k in 0..3 {
        entries.push(UnkEntry { cate_id: es[k].cate_id, left_id: es[k].left_id, right_id: es[k].right_id, word_cost: es[k].word_cost, feature: feature_of('k', k) });
    }
    let ds = Dictionary::verif_from_parts(sys, None, ConnectorWrapper::Matrix(MatrixConnector::new(data, 2, 2)), None,
        char_prop_of(&ss.cats), UnkHandler::verif_from_parts(vec![0, 1, 2, 3], entries));
    let tu_owned = Tokenizer::new(du);
    let ts_owned = Tokenizer::new(ds);
    let (tu, ts) = (&tu_owned, &ts_owned);
    let mut wu = tu.new_worker();
    wu.reset_sentence("\u{1}\u{2}");
    wu.tokenize();
    let mut ws = ts.new_worker();
    ws.reset_sentence("\u{1}\u{2}");
    ws.tokenize();
    let (lu, ls) = (wu.verif_lattice(), ws.verif_lattice());
    assert!(lu.verif_eos().unwrap().min_cost == ls.verif_eos().unwrap().min_cost, "optimal cost differs from the extended system lexicon");
    let (eu, es2) = (lu.verif_ends(), ls.verif_ends());
    // boundary 1: {a (system), unknown a}; boundary 2: {ab, unknown b / ab...}: same multisets.
    for b in 1..=2 {
        assert!(eu[b].len() == es2[b].len(), "candidate count differs");
    }
    // in the user dictionary the word `ab` is offered first at position 0 (user before system),
    // in the extended one after `a`; compare as sets through their prefix minima
    let mut user_seen = 0;
    for j in 0..6 {
        if j < eu[2].len() {
            let n = &eu[2][j];
            if n.lex_type == LexType::User {
                user_seen += 1;
                assert!((n.word_id as usize) < k && n.start_word == 0);
                let mut matched = false;
                for q in 0..6 {
                    if q < es2[2].len() {
                        let m = &es2[2][q];
                        if m.lex_type == LexType::System && m.word_id == n.word_id + 1 {
                            matched = true;
                            assert!(m.min_cost == n.min_cost && m.left_id == n.left_id && m.right_id == n.right_id);
                        }
                    }
                }
                assert!(matched);
            }
        }
    }
    assert!(user_seen == k, "not every user row is a candidate (homographs are distinct words)");
    // system words remain available: the system word (id 0) is a candidate with the user
    // lexicon exactly where it is one with the extended system lexicon (it may be unreachable in both)
    let mut in_u = 0;
    let mut in_s = 0;
    for b in 1..=2 {
        for j in 0..6 {
            if j < eu[b].len() && eu[b][j].lex_type == LexType::System && eu[b][j].word_id == 0 {
                in_u += 1;
            }
            if j < es2[b].len() && es2[b][j].lex_type == LexType::System && es2[b][j].word_id == 0 {
                in_s += 1;
            }
        }
    }
    assert!(in_u == in_s, "a system word is offered differently with the user lexicon");
    kani::cover!(wu.num_tokens() == 1);
    core::mem::forget(wu);
    core::mem::forget(ws);
    core::mem::forget(tu_owned);
    core::mem::forget(ts_owned);
}

//@ c08_clear_user_lexicon {"desc":"reset_user_lexicon_from_reader(None) removes the user lexicon: no user candidates afterwards, system lexicon and connector untouched","bounds":"dictionary system {a} + user {ab}; sentence \"ab\"","symbolic":"costs, ids, matrix","functions":["Dictionary::reset_user_lexicon_from_reader","Tokenizer::add_lattice_edges"],"fs":2048,"unwind":7,"timeout":1200,"mem_gb":16,"stubs":["alloc::fmt::format"]}
#[cfg(kani)]
#[kani::proof]
#[kani::stub(alloc::fmt::format, crate::c06::stub_format)]
fn c08_clear_user_lexicon() {
    let du = dict_of(&S_USER);
    let pa = du.verif_system_lexicon().word_param(WordIdx { lex_type: LexType::System, word_id: 0 });
    let c00 = du.verif_conn_cost(1, 1);
    let none: Option<&[u8]> = None;
    let d = match du.reset_user_lexicon_from_reader(none) {
        Ok(d) => d,
        Err(_) => {
            assert!(false, "clearing the user lexicon failed");
            return;
        }
    };
    assert!(d.verif_user_lexicon().is_none());
    assert!(d.verif_system_lexicon().word_param(WordIdx { lex_type: LexType::System, word_id: 0 }) == pa);
    assert!(matrix_of(d.verif_connector()).cost(1, 1) == c00);
    let t_owned = Tokenizer::new(d);
    let t = &t_owned;
    let mut w = t.new_worker();
    w.reset_sentence("\u{1}\u{2}");
    w.verif_tokenize_with(matrix_of(t.dictionary().verif_connector()));
    let ends = w.verif_lattice().verif_ends();
    for b in 1..=2 {
        for j in 0..4 {
            if j < ends[b].len() {
                assert!(ends[b][j].lex_type != LexType::User, "a user candidate survives clearing");
            }
        }
    }
    kani::cover!(w.num_tokens() == 2);
    core::mem::forget(w);
    core::mem::forget(t_owned);
}

/// Stands in for `Lexicon::from_entries` (whose `WordMap::new` runs the crawdad double-array
/// builder, out of reach for CBMC) when the CSV has exactly one row with surface "b": the trie
/// and postings are the ones the current builder produced natively for {b} (gen.rs), parameters
/// and lexicon type are taken from the parsed entries as the real function does.
#[cfg(kani)]
pub fn stub_from_entries_b(entries: &[RawWordEntry], lex_type: LexType) -> vibrato::errors::Result<Lexicon> {
    assert!(entries.len() == 1, "the stub covers one-row user lexicons only");
    assert!(entries[0].surface.len() == 1 && entries[0].surface.as_bytes()[0] == 2, "the stub covers the surface \"b\" only");
    let mut params = Vec::with_capacity(1);
    params.push(entries[0].param);
    let mut feats = Vec::with_capacity(1);
    feats.push(String::new());
    Ok(Lexicon::verif_from_parts(&gen::LEX_B_TRIE, copy_u32(&gen::LEX_B_POST), params, feats, lex_type))
}

#[cfg(kani)]
pub fn user_param_pub(d: &Dictionary) -> WordParam {
    user_param(d)
}

#[cfg(kani)]
fn user_param(d: &Dictionary) -> WordParam {
    match d.verif_user_lexicon() {
        Some(u) => {
            assert!(u.verif_num_words() == 1 && u.verif_lex_type() == LexType::User);
            u.word_param(WordIdx { lex_type: LexType::User, word_id: 0 })
        }
        None => {
            assert!(false, "no user lexicon installed");
            WordParam::default()
        }
    }
}

#[cfg(kani)]
fn mapped_dictionary(ml: &mut [u16; 3], mr: &mut [u16; 3]) -> Dictionary {
    let (nr, nl) = (3, 3);
    // retained mapper: old id -> new id, id 0 fixed, {1,2} permuted arbitrarily on each side
    let sl: bool = kani::any();
    let sr: bool = kani::any();
    *ml = if sl { [0, 2, 1] } else { [0, 1, 2] };
    *mr = if sr { [0, 2, 1] } else { [0, 1, 2] };
    let mut vl = Vec::with_capacity(3);
    let mut vr = Vec::with_capacity(3);
    for i in 0..3 {
        vl.push(ml[i]);
        vr.push(mr[i]);
    }
    Dictionary::verif_from_parts(
        lexicon_of(&L_A_AB, nr, nl, LexType::System),
        None,
        ConnectorWrapper::Matrix(sym_matrix(nr, nl)),
        Some(ConnIdMapper::new(vl, vr)),
        char_prop_of(&CATS_MIX),
        unk_of(&[1, 1, 1], nr, nl),
    )
}

#[cfg(kani)]
fn load(d: Dictionary, csv: &[u8; 10]) -> Dictionary {
    match d.reset_user_lexicon_from_reader(Some(&csv[..])) {
        Ok(d) => d,
        Err(_) => {
            assert!(false, "a valid user lexicon was rejected");
            unreachable!()
        }
    }
}

#[cfg(kani)]
fn mapper_kept(d: &Dictionary, ml: &[u16; 3], mr: &[u16; 3]) {
    match d.verif_mapper() {
        Some(m) => {
            for i in 0..3 {
                assert!(m.left(i as u16) == ml[i] && m.right(i as u16) == mr[i], "the retained mapping changed");
            }
        }
        None => assert!(false, "the retained mapping was dropped"),
    }
}

//@ c08_replace_after_mapping {"desc":"on an id-mapped dictionary a user lexicon loaded from CSV and the one that replaces it are both translated with the retained mapping (rows are written with original ids), and the mapping stays in place","bounds":"dictionary system {a,ab}, 3x3 matrix, retained mapping = any pair of permutations of ids {1,2}; CSV rows \"b,1,2,3,u\" then \"b,2,1,7,v\" (concrete: parse_csv folds on concrete rows only)","symbolic":"the retained mapping, system parameters, matrix","functions":["Dictionary::reset_user_lexicon_from_reader","Lexicon::from_reader","Lexicon::parse_csv","Lexicon::map_connection_ids","Lexicon::verify"],"fs":5000,"unwind":24,"timeout":2400,"mem_gb":24,"stubs":["alloc::fmt::format","csv_core::Reader::new (NFA mode)","csv_core::Reader::build_dfa","Lexicon::from_entries (trie for {b} prebuilt natively)"]}
#[cfg(kani)]
#[kani::proof]
#[kani::stub(alloc::fmt::format, crate::c06::stub_format)]
#[kani::stub(csv_core::Reader::new, crate::csvstub::stub_reader_new)]
#[kani::stub(csv_core::Reader::build_dfa, crate::csvstub::stub_build_dfa)]
#[kani::stub(vibrato::verif_hooks::Lexicon::from_entries, stub_from_entries_b)]
fn c08_replace_after_mapping() {
    let (mut ml, mut mr) = ([0u16; 3], [0u16; 3]);
    let d = mapped_dictionary(&mut ml, &mut mr);
    let d = load(d, b"\x02,1,2,3,u\n");
    let p = user_param(&d);
    assert!(p.left_id == ml[1] && p.right_id == mr[2] && p.word_cost == 3, "the first user lexicon is not translated with the retained mapping");
    let d = load(d, b"\x02,2,1,7,v\n");
    let p = user_param(&d);
    assert!(p.left_id == ml[2] && p.right_id == mr[1] && p.word_cost == 7, "the replacement user lexicon is not translated with the retained mapping");
    mapper_kept(&d, &ml, &mr);
    kani::cover!(ml[1] == 2 && mr[1] == 1);
    core::mem::forget(d);
}

//@ c08_reload_after_clear {"desc":"on an id-mapped dictionary a user lexicon loaded after the previous one was cleared with None is translated with the retained mapping","bounds":"as c08_replace_after_mapping; history load \"b,1,2,3,u\", clear, load \"b,2,2,9,w\"","symbolic":"the retained mapping, system parameters, matrix","functions":["Dictionary::reset_user_lexicon_from_reader","Lexicon::from_reader","Lexicon::parse_csv","Lexicon::map_connection_ids","Lexicon::verify"],"fs":5000,"unwind":24,"timeout":2400,"mem_gb":24,"stubs":["alloc::fmt::format","csv_core::Reader::new (NFA mode)","csv_core::Reader::build_dfa","Lexicon::from_entries (trie for {b} prebuilt natively)"]}
#[cfg(kani)]
#[kani::proof]
#[kani::stub(alloc::fmt::format, crate::c06::stub_format)]
#[kani::stub(csv_core::Reader::new, crate::csvstub::stub_reader_new)]
#[kani::stub(csv_core::Reader::build_dfa, crate::csvstub::stub_build_dfa)]
#[kani::stub(vibrato::verif_hooks::Lexicon::from_entries, stub_from_entries_b)]
fn c08_reload_after_clear() {
    let (mut ml, mut mr) = ([0u16; 3], [0u16; 3]);
    let d = mapped_dictionary(&mut ml, &mut mr);
    let d = load(d, b"\x02,1,2,3,u\n");
    let none: Option<&[u8]> = None;
    let d = match d.reset_user_lexicon_from_reader(none) {
        Ok(d) => d,
        Err(_) => {
            assert!(false, "clearing failed");
            return;
        }
    };
    assert!(d.verif_user_lexicon().is_none());
    let d = load(d, b"\x02,2,2,9,w\n");
    let p = user_param(&d);
    assert!(p.left_id == ml[2] && p.right_id == mr[2] && p.word_cost == 9, "a user lexicon loaded after clearing is not translated with the retained mapping");
    mapper_kept(&d, &ml, &mr);
    kani::cover!(ml[2] == 1);
    core::mem::forget(d);
}

#[cfg(kani)]
fn plain_dictionary_3x3() -> Dictionary {
    Dictionary::verif_from_parts(
        lexicon_of(&L_A_AB, 3, 3, LexType::System),
        None,
        ConnectorWrapper::Matrix(sym_matrix(3, 3)),
        None,
        char_prop_of(&CATS_MIX),
        unk_of(&[1, 1, 1], 3, 3),
    )
}

//@ c08_user_ids_at_bound_rejected {"desc":"a user CSV row whose left or right connection id equals the connector's size (the first id outside it) is rejected by reset_user_lexicon_from_reader, on either side","bounds":"dictionary system {a,ab}, 3x3 matrix; CSV rows \"b,1,3,5,u\" (right id at the bound) and \"b,3,1,5,u\" (left id at the bound)","symbolic":"system parameters, matrix","functions":["Dictionary::reset_user_lexicon_from_reader","Lexicon::from_reader","Lexicon::parse_csv","Lexicon::verify"],"fs":5000,"unwind":24,"timeout":2400,"mem_gb":24,"covers":"none","stubs":["alloc::fmt::format","csv_core::Reader::new (NFA mode)","csv_core::Reader::build_dfa","Lexicon::from_entries (trie for {b} prebuilt natively)"]}
#[cfg(kani)]
#[kani::proof]
#[kani::stub(alloc::fmt::format, crate::c06::stub_format)]
#[kani::stub(csv_core::Reader::new, crate::csvstub::stub_reader_new)]
#[kani::stub(csv_core::Reader::build_dfa, crate::csvstub::stub_build_dfa)]
#[kani::stub(vibrato::verif_hooks::Lexicon::from_entries, stub_from_entries_b)]
fn c08_user_ids_at_bound_rejected() {
    let r = plain_dictionary_3x3().reset_user_lexicon_from_reader(Some(&b"\x02,1,3,5,u\n"[..]));
    assert!(r.is_err(), "a user word whose right id is the first one outside the connector was accepted");
    core::mem::forget(r);
    let r = plain_dictionary_3x3().reset_user_lexicon_from_reader(Some(&b"\x02,3,1,5,u\n"[..]));
    assert!(r.is_err(), "a user word whose left id is the first one outside the connector was accepted");
    core::mem::forget(r);
}

//@ c08_twin {"expect":"fail","desc":"vacuity twin: claims the user word is never chosen","bounds":"as c08_user_equals_extended_system","symbolic":"costs, ids, matrix","functions":["Worker::tokenize"],"fs":2048,"unwind":7,"timeout":1200,"covers":"none"}
#[cfg(kani)]
#[kani::proof]
fn c08_twin() {
    let tu_owned = Tokenizer::new(dict_of(&S_USER));
    let tu = &tu_owned;
    let mut wu = tu.new_worker();
    wu.reset_sentence("\u{1}\u{2}");
    wu.tokenize();
    let top = wu.verif_top_nodes();
    assert!(top.len() != 1 || top[0].1.lex_type != LexType::User, "VACUITY: the user word can win");
    core::mem::forget(wu);
    core::mem::forget(tu_owned);
}
