//! C05: a compiled dictionary round-trips through write/read.
//!
//! `Dictionary::write` into an element-wise writer, `Dictionary::read` from the written bytes,
//! `write` again: for dictionaries of concrete structure with *symbolic* numeric contents (word
//! and unknown-entry parameters, connection-matrix cells, character infos, id-mapper vectors,
//! feature-id rows and scorer arrays).  Asserted: the reported byte count equals the bytes
//! emitted and every field read back equals the field written.  A second `write` of the reloaded
//! value is outside the claim (see the note in `roundtrip_matrix`).
//! All strings are empty (see gen/: UTF-8 validation of non-empty heap strings does not fold).
use crate::util::*;
use crate::world::*;
use vibrato::dictionary::Dictionary;
use vibrato::verif_hooks::*;

pub struct ElemWriter {
    pub buf: [u8; 1024],
    pub pos: usize,
}

impl ElemWriter {
    pub fn new() -> Self {
        Self { buf: [0u8; 1024], pos: 0 }
    }
}

impl std::io::Write for ElemWriter {
    fn write(&mut self, b: &[u8]) -> std::io::Result<usize> {
        let mut i = 0;
        while i < b.len() {
            self.buf[self.pos + i] = b[i];
            i += 1;
        }
        self.pos += b.len();
        Ok(b.len())
    }
    fn write_all(&mut self, b: &[u8]) -> std::io::Result<()> {
        let mut i = 0;
        while i < b.len() {
            self.buf[self.pos + i] = b[i];
            i += 1;
        }
        self.pos += b.len();
        Ok(())
    }
    fn flush(&mut self) -> std::io::Result<()> {
        Ok(())
    }
}

#[cfg(kani)]
fn empty_strings(n: usize) -> Vec<String> {
    let mut v = Vec::with_capacity(n);
    for _ in 0..n {
        v.push(String::new());
    }
    v
}

/// 2 words (a, ab), optional user lexicon {b}, connector given, optional mapper, 3-entry
/// character table with arbitrary raw infos, 2 unknown entries.
#[cfg(kani)]
fn sym_dictionary(conn: ConnectorWrapper, with_user: bool, with_mapper: bool, nr: usize, nl: usize) -> Dictionary {
    let mut params = Vec::with_capacity(2);
    for _ in 0..2 {
        params.push(sym_param(nr, nl));
    }
    let sys = Lexicon::verif_from_parts(&gen::LEX_A_AB_TRIE, copy_u32(&gen::LEX_A_AB_POST), params, empty_strings(2), LexType::System);
    let user = if with_user {
        let mut up = Vec::with_capacity(1);
        up.push(sym_param(nr, nl));
        Some(Lexicon::verif_from_parts(&gen::LEX_B_TRIE, copy_u32(&gen::LEX_B_POST), up, empty_strings(1), LexType::User))
    } else {
        None
    };
    let mapper = if with_mapper {
        let mut l = Vec::with_capacity(nl);
        let mut r = Vec::with_capacity(nr);
        for _ in 0..nl {
            l.push(kani::any::<u16>());
        }
        for _ in 0..nr {
            r.push(kani::any::<u16>());
        }
        Some(ConnIdMapper::new(l, r))
    } else {
        None
    };
    let mut table = Vec::with_capacity(3);
    for _ in 0..3 {
        table.push(CharInfo::verif_from_raw(kani::any()));
    }
    let prop = CharProperty::verif_from_parts(table, empty_strings(2));
    let mut entries = Vec::with_capacity(2);
    for c in 0..2 {
        let p = sym_param(nr, nl);
        entries.push(UnkEntry { cate_id: c as u16, left_id: p.left_id, right_id: p.right_id, word_cost: p.word_cost, feature: String::new() });
    }
    let unk = UnkHandler::verif_from_parts(vec![0, 1, 2], entries);
    Dictionary::verif_from_parts(sys, user, conn, mapper, prop, unk)
}

#[cfg(kani)]
fn write_of(d: &Dictionary, w: &mut ElemWriter) -> usize {
    match d.write(&mut *w) {
        Ok(n) => n,
        Err(_) => {
            assert!(false, "write failed");
            0
        }
    }
}

#[cfg(kani)]
fn same_common(a: &Dictionary, b: &Dictionary, with_user: bool, with_mapper: bool, nr: usize, nl: usize) {
    for i in 0..2 {
        let wi = WordIdx { lex_type: LexType::System, word_id: i };
        assert!(a.verif_system_lexicon().word_param(wi) == b.verif_system_lexicon().word_param(wi), "a system word parameter changed");
    }
    assert!(b.verif_system_lexicon().verif_num_words() == 2);
    assert!(b.verif_system_lexicon().verif_lex_type() == LexType::System);
    assert!(b.verif_user_lexicon().is_some() == with_user, "user lexicon presence changed");
    if with_user {
        let wi = WordIdx { lex_type: LexType::User, word_id: 0 };
        assert!(a.verif_user_lexicon().unwrap().word_param(wi) == b.verif_user_lexicon().unwrap().word_param(wi));
        assert!(b.verif_user_lexicon().unwrap().verif_lex_type() == LexType::User);
    }
    assert!(b.verif_mapper().is_some() == with_mapper, "mapper presence changed");
    if with_mapper {
        let (ma, mb) = (a.verif_mapper().unwrap(), b.verif_mapper().unwrap());
        assert!(mb.verif_left().len() == nl && mb.verif_right().len() == nr);
        for i in 0..nl {
            assert!(ma.verif_left()[i] == mb.verif_left()[i]);
        }
        for i in 0..nr {
            assert!(ma.verif_right()[i] == mb.verif_right()[i]);
        }
    }
    let (ta, tb) = (a.verif_char_prop().verif_chr2inf(), b.verif_char_prop().verif_chr2inf());
    assert!(tb.len() == 3 && b.verif_char_prop().verif_categories().len() == 2);
    for i in 0..3 {
        assert!(ta[i].verif_raw() == tb[i].verif_raw(), "a character info changed");
    }
    let (ea, eb) = (a.verif_unk_handler().verif_entries(), b.verif_unk_handler().verif_entries());
    assert!(eb.len() == 2 && b.verif_unk_handler().verif_offsets().len() == 3);
    for i in 0..2 {
        assert!(ea[i].cate_id == eb[i].cate_id && ea[i].left_id == eb[i].left_id && ea[i].right_id == eb[i].right_id && ea[i].word_cost == eb[i].word_cost,
            "an unknown entry changed");
    }
    for i in 0..3 {
        assert!(a.verif_unk_handler().verif_offsets()[i] == b.verif_unk_handler().verif_offsets()[i]);
    }
    // the trie and postings survive: same serialized trie, same postings
    assert!(b.verif_system_lexicon().verif_postings().len() == 4);
    for i in 0..4 {
        assert!(b.verif_system_lexicon().verif_postings()[i] == gen::LEX_A_AB_POST[i]);
    }
}

#[cfg(kani)]
fn roundtrip_matrix(with_user: bool, with_mapper: bool) {
    // non-square on purpose: a dimension mix-up is invisible on square matrices
    let (nr, nl) = (2, 3);
    let d = sym_dictionary(ConnectorWrapper::Matrix(sym_matrix(nr, nl)), with_user, with_mapper, nr, nl);
    let mut w = ElemWriter::new();
    let n = write_of(&d, &mut w);
    assert!(n == w.pos, "write reports a byte count different from the bytes it emitted");
    let d2 = match Dictionary::read(CutReader::new(&w.buf, n)) {
        Ok(x) => x,
        Err(_) => {
            assert!(false, "the written image does not load");
            return;
        }
    };
    same_common(&d, &d2, with_user, with_mapper, nr, nl);
    let (ma, mb) = (matrix_of(d.verif_connector()), matrix_of(d2.verif_connector()));
    assert!(mb.num_left() == nl && mb.num_right() == nr);
    for i in 0..nr * nl {
        assert!(ma.verif_data()[i] == mb.verif_data()[i], "a connection cost changed");
    }
    // (Writing the reloaded dictionary again is not part of this harness: the value comes back
    // inside a `Result`, after which CBMC no longer sees the connector enum's discriminant as a
    // constant and `write` would encode all three connector arms over unconstrained data.)
    kani::cover!(n > 300);
    core::mem::forget(d);
    core::mem::forget(d2);
}

//@ c05_roundtrip_matrix {"desc":"write -> read -> write of a matrix-connector dictionary: byte count = bytes emitted, every numeric field identical after reload, reload field-identical","bounds":"2 words, matrix with 2 right x 3 left ids, 3-entry character table, 2 unknown entries, no user lexicon, no mapper; all strings empty","symbolic":"word/unknown parameters, matrix cells, character infos","functions":["Dictionary::write","Dictionary::read","Dictionary::read_common","bincode derive codecs of DictionaryInner/Lexicon/WordMap/Postings/WordParams/WordFeatures/MatrixConnector/CharProperty/UnkHandler","Trie::encode","Trie::decode"],"fs":5000,"unwind":24,"unwindset":["memcmp:24","roundtrip_matrix:1030","ElemWriter:200"],"timeout":2400,"mem_gb":24,"stubs":["alloc::fmt::format","unty::type_equal"]}
#[cfg(kani)]
#[kani::proof]
#[kani::stub(alloc::fmt::format, crate::c06::stub_format)]
#[kani::stub(unty::type_equal, crate::csvstub::stub_type_equal)]
fn c05_roundtrip_matrix() {
    roundtrip_matrix(false, false)
}

//@ c05_roundtrip_matrix_user_mapper {"desc":"as c05_roundtrip_matrix with a user lexicon and a stored id mapper (Option fields present)","bounds":"2 system words + 1 user word, 2x2 matrix, mapper vectors of length 2","symbolic":"all parameters, matrix cells, character infos, mapper vectors","functions":["Dictionary::write","Dictionary::read","ConnIdMapper codec","Option<Lexicon> codec"],"fs":5000,"unwind":24,"unwindset":["memcmp:24","roundtrip_matrix:1030","ElemWriter:200"],"timeout":3000,"mem_gb":24,"stubs":["alloc::fmt::format","unty::type_equal"]}
#[cfg(kani)]
#[kani::proof]
#[kani::stub(alloc::fmt::format, crate::c06::stub_format)]
#[kani::stub(unty::type_equal, crate::csvstub::stub_type_equal)]
fn c05_roundtrip_matrix_user_mapper() {
    roundtrip_matrix(true, true)
}


#[cfg(kani)]
fn any_u31() -> U31 {
    let x: u32 = kani::any();
    kani::assume(x <= 0x7fff_ffff);
    U31::new(x).unwrap()
}

#[cfg(kani)]
fn sym_block8() -> ([U31; 8], U31x8) {
    let mut a = [U31::default(); 8];
    for i in 0..8 {
        a[i] = any_u31();
    }
    (a, U31x8::verif_from_array(a))
}

#[cfg(kani)]
fn same_block8(x: &U31x8, a: &[U31; 8]) -> bool {
    let b = x.verif_to_array();
    let mut ok = true;
    for i in 0..8 {
        if b[i].get() != a[i].get() {
            ok = false;
        }
    }
    ok
}

#[cfg(kani)]
fn sym_scorer_parts(bases: &mut [u32; 2], checks: &mut [u32; 3], costs: &mut [i32; 3]) -> Scorer {
    let mut b = Vec::with_capacity(2);
    let mut ch = Vec::with_capacity(3);
    let mut co = Vec::with_capacity(3);
    for i in 0..2 {
        bases[i] = kani::any();
        b.push(bases[i]);
    }
    for i in 0..3 {
        checks[i] = kani::any();
        costs[i] = kani::any();
        ch.push(checks[i]);
        co.push(costs[i]);
    }
    Scorer::verif_from_parts(b, ch, co)
}

#[cfg(kani)]
fn same_scorer(sc: &Scorer, bases: &[u32; 2], checks: &[u32; 3], costs: &[i32; 3]) {
    assert!(sc.verif_bases().len() == 2 && sc.verif_checks().len() == 3 && sc.verif_costs().len() == 3);
    for i in 0..2 {
        assert!(sc.verif_bases()[i] == bases[i], "a scorer base changed");
    }
    for i in 0..3 {
        assert!(sc.verif_checks()[i] == checks[i] && sc.verif_costs()[i] == costs[i], "a scorer cell changed");
    }
}

//@ c05_roundtrip_raw {"tier":"thorough","core":false,"desc":"write -> read of a raw-connector dictionary: the 8-lane feature rows (hand-written U31x8/U31 codecs) and the scorer arrays (hand-written Scorer codec) come back identical, byte count = bytes emitted","bounds":"2 right x 2 left ids, 1 block per id, scorer 2 bases / 3 cells; 2 words, 3-entry table, 2 unknown entries","symbolic":"all feature ids (valid 31-bit), scorer arrays, word/unknown parameters, character infos","functions":["Dictionary::write","Dictionary::read","U31x8::encode","U31x8::decode","U31::decode","Scorer::encode","Scorer::decode","RawConnector codec"],"fs":5000,"unwind":24,"unwindset":["memcmp:24","ElemWriter:200"],"timeout":3600,"mem_gb":28,"stubs":["alloc::fmt::format","unty::type_equal"]}
#[cfg(kani)]
#[kani::proof]
#[kani::stub(alloc::fmt::format, crate::c06::stub_format)]
#[kani::stub(unty::type_equal, crate::csvstub::stub_type_equal)]
fn c05_roundtrip_raw() {
    let (nr, nl) = (2, 2);
    let (mut bases, mut checks, mut costs) = ([0u32; 2], [0u32; 3], [0i32; 3]);
    let sc = sym_scorer_parts(&mut bases, &mut checks, &mut costs);
    let (r0, rx0) = sym_block8();
    let (r1, rx1) = sym_block8();
    let (l0, lx0) = sym_block8();
    let (l1, lx1) = sym_block8();
    let conn = RawConnector::new(vec![rx0, rx1], vec![lx0, lx1], 1, sc);
    let d = sym_dictionary(ConnectorWrapper::Raw(conn), false, false, nr, nl);
    let mut w = ElemWriter::new();
    let n = write_of(&d, &mut w);
    assert!(n == w.pos, "write reports a byte count different from the bytes it emitted");
    let d2 = match Dictionary::read(CutReader::new(&w.buf, n)) {
        Ok(x) => x,
        Err(_) => {
            assert!(false, "the written image does not load");
            return;
        }
    };
    same_common(&d, &d2, false, false, nr, nl);
    match d2.verif_connector() {
        ConnectorWrapper::Raw(c) => {
            assert!(c.verif_feat_template_size() == 1);
            assert!(c.verif_right_feat_ids().len() == 2 && c.verif_left_feat_ids().len() == 2);
            assert!(same_block8(&c.verif_right_feat_ids()[0], &r0) && same_block8(&c.verif_right_feat_ids()[1], &r1), "a right feature row changed");
            assert!(same_block8(&c.verif_left_feat_ids()[0], &l0) && same_block8(&c.verif_left_feat_ids()[1], &l1), "a left feature row changed");
            same_scorer(c.verif_scorer(), &bases, &checks, &costs);
        }
        _ => assert!(false, "the connector kind changed"),
    }
    kani::cover!(r1[7].get() == 0x7fff_ffff);
    core::mem::forget(d);
    core::mem::forget(d2);
}

//@ c05_roundtrip_dual {"tier":"thorough","core":false,"desc":"write -> read of a dual-connector dictionary with user lexicon: class matrix, class maps, raw rows and raw scorer identical","bounds":"2x2 ids, 2x2 class matrix, 1 block per id, scorer 2 bases / 3 cells","symbolic":"matrix cells, class maps, feature ids, scorer arrays, parameters","functions":["Dictionary::write","Dictionary::read","DualConnector codec","Scorer codec","U31x8 codec"],"fs":5000,"unwind":24,"unwindset":["memcmp:24","ElemWriter:200"],"timeout":3600,"mem_gb":24,"stubs":["alloc::fmt::format","unty::type_equal"]}
#[cfg(kani)]
#[kani::proof]
#[kani::stub(alloc::fmt::format, crate::c06::stub_format)]
#[kani::stub(unty::type_equal, crate::csvstub::stub_type_equal)]
fn c05_roundtrip_dual() {
    let (nr, nl) = (2, 2);
    let (mut bases, mut checks, mut costs) = ([0u32; 2], [0u32; 3], [0i32; 3]);
    let sc = sym_scorer_parts(&mut bases, &mut checks, &mut costs);
    let (r0, rx0) = sym_block8();
    let (r1, rx1) = sym_block8();
    let (l0, lx0) = sym_block8();
    let (l1, lx1) = sym_block8();
    let m = sym_matrix(2, 2);
    let mut cells = [0i16; 4];
    for i in 0..4 {
        cells[i] = m.verif_data()[i];
    }
    let rmap = [kani::any::<u16>(), kani::any::<u16>()];
    let lmap = [kani::any::<u16>(), kani::any::<u16>()];
    let conn = DualConnector::verif_from_parts(m, vec![rmap[0], rmap[1]], vec![lmap[0], lmap[1]], vec![rx0, rx1], vec![lx0, lx1], sc);
    let d = sym_dictionary(ConnectorWrapper::Dual(conn), true, false, nr, nl);
    let mut w = ElemWriter::new();
    let n = write_of(&d, &mut w);
    assert!(n == w.pos);
    let d2 = match Dictionary::read(CutReader::new(&w.buf, n)) {
        Ok(x) => x,
        Err(_) => {
            assert!(false, "the written image does not load");
            return;
        }
    };
    same_common(&d, &d2, true, false, nr, nl);
    match d2.verif_connector() {
        ConnectorWrapper::Dual(c) => {
            for i in 0..4 {
                assert!(c.verif_matrix_connector().verif_data()[i] == cells[i]);
            }
            for i in 0..2 {
                assert!(c.verif_right_conn_id_map()[i] == rmap[i] && c.verif_left_conn_id_map()[i] == lmap[i]);
            }
            assert!(same_block8(&c.verif_right_feat_ids()[0], &r0) && same_block8(&c.verif_right_feat_ids()[1], &r1));
            assert!(same_block8(&c.verif_left_feat_ids()[0], &l0) && same_block8(&c.verif_left_feat_ids()[1], &l1));
            same_scorer(c.verif_raw_scorer(), &bases, &checks, &costs);
        }
        _ => assert!(false, "the connector kind changed"),
    }
    kani::cover!(cells[3] == -1);
    core::mem::forget(d);
    core::mem::forget(d2);
}

//@ c05_scorer_codec_roundtrip {"desc":"hand-written Scorer codec: encode then decode returns the same three arrays for arbitrary contents (zeros included), and the encoding is the documented layout (three length-prefixed little-endian arrays)","bounds":"2 bases, 3 check/cost cells","symbolic":"all array contents","functions":["Scorer::encode","Scorer::decode"],"fs":5000,"unwind":14,"unwindset":["ElemWriter:200"],"timeout":900,"stubs":["unty::type_equal"]}
#[cfg(kani)]
#[kani::proof]
#[kani::stub(unty::type_equal, crate::csvstub::stub_type_equal)]
fn c05_scorer_codec_roundtrip() {
    let (mut bases, mut checks, mut costs) = ([0u32; 2], [0u32; 3], [0i32; 3]);
    let sc = sym_scorer_parts(&mut bases, &mut checks, &mut costs);
    let mut w = ElemWriter::new();
    let n = match bincode::encode_into_std_write(&sc, &mut w, vibrato::common::bincode_config()) {
        Ok(n) => n,
        Err(_) => {
            assert!(false);
            0
        }
    };
    assert!(n == w.pos && n == 8 + 2 * 4 + 8 + 3 * 4 + 8 + 3 * 4, "unexpected encoded size");
    assert!(w.buf[0] == 2 && w.buf[16] == 3 && w.buf[36] == 3, "array lengths are not where the layout puts them");
    for i in 0..2 {
        let b = [w.buf[8 + 4 * i], w.buf[9 + 4 * i], w.buf[10 + 4 * i], w.buf[11 + 4 * i]];
        assert!(u32::from_le_bytes(b) == bases[i], "a base is not encoded at its place");
    }
    let mut r = CutReader::new(&w.buf, n);
    let d: Result<Scorer, _> = bincode::decode_from_std_read(&mut r, vibrato::common::bincode_config());
    match &d {
        Ok(x) => same_scorer(x, &bases, &checks, &costs),
        Err(_) => assert!(false, "the encoded scorer does not decode"),
    }
    kani::cover!(bases[1] == 0 && bases[0] == 0);
    kani::cover!(bases[1] != 0);
    core::mem::forget(d);
    core::mem::forget(sc);
}

//@ c05_scorer_codec_zero_bases {"desc":"Scorer codec with concrete zero bases (0 is a valid double-array offset and the first one the builder tries): all entries survive, including trailing zeros","bounds":"bases [7,0] and [0,0]; 3 symbolic check/cost cells","symbolic":"checks, costs","functions":["Scorer::encode","Scorer::decode"],"fs":5000,"unwind":14,"unwindset":["ElemWriter:200"],"timeout":900,"covers":"none","stubs":["unty::type_equal"]}
#[cfg(kani)]
#[kani::proof]
#[kani::stub(unty::type_equal, crate::csvstub::stub_type_equal)]
fn c05_scorer_codec_zero_bases() {
    for first in [7u32, 0u32] {
        let mut ch = Vec::with_capacity(3);
        let mut co = Vec::with_capacity(3);
        let (mut checks, mut costs) = ([0u32; 3], [0i32; 3]);
        for i in 0..3 {
            checks[i] = kani::any();
            costs[i] = kani::any();
            ch.push(checks[i]);
            co.push(costs[i]);
        }
        let sc = Scorer::verif_from_parts(vec![first, 0], ch, co);
        let mut w = ElemWriter::new();
        let n = match bincode::encode_into_std_write(&sc, &mut w, vibrato::common::bincode_config()) {
            Ok(n) => n,
            Err(_) => 0,
        };
        assert!(n == w.pos && n == 8 + 2 * 4 + 8 + 3 * 4 + 8 + 3 * 4, "an array was written shorter or longer than it is");
        let mut r = CutReader::new(&w.buf, n);
        let d: Result<Scorer, _> = bincode::decode_from_std_read(&mut r, vibrato::common::bincode_config());
        match &d {
            Ok(x) => same_scorer(x, &[first, 0], &checks, &costs),
            Err(_) => assert!(false, "the encoded scorer does not decode"),
        }
        core::mem::forget(d);
        core::mem::forget(sc);
    }
}

//@ c05_trie_codec_roundtrip {"desc":"hand-written Trie codec: the encoding is the length-prefixed crawdad serialization and decoding it gives a trie that serializes to the same bytes","bounds":"generator-built trie for {a, ab} (88 bytes)","symbolic":"none (structure only)","functions":["Trie::encode","Trie::decode","Lexicon codec"],"fs":5000,"unwind":24,"unwindset":["ElemWriter:200","c05_trie_codec_roundtrip:100"],"timeout":900,"covers":"none","stubs":["unty::type_equal"]}
#[cfg(kani)]
#[kani::proof]
#[kani::stub(unty::type_equal, crate::csvstub::stub_type_equal)]
fn c05_trie_codec_roundtrip() {
    let lex = sym_lexicon(&gen::LEX_A_AB_TRIE, &gen::LEX_A_AB_POST, gen::LEX_A_AB_NWORDS, 2, 2, LexType::System);
    let mut w = ElemWriter::new();
    let n = match bincode::encode_into_std_write(&lex, &mut w, vibrato::common::bincode_config()) {
        Ok(n) => n,
        Err(_) => {
            assert!(false);
            0
        }
    };
    assert!(n == w.pos);
    // the lexicon starts with its word map, which starts with the trie: u64 length + bytes
    assert!(w.buf[0] == 88 && w.buf[1] == 0);
    for i in 0..88 {
        assert!(w.buf[8 + i] == gen::LEX_A_AB_TRIE[i], "trie bytes are not written verbatim");
    }
    let mut r = CutReader::new(&w.buf, n);
    let d: Result<Lexicon, _> = bincode::decode_from_std_read(&mut r, vibrato::common::bincode_config());
    match &d {
        Ok(l2) => {
            let tb = l2.verif_trie_bytes();
            assert!(tb.len() == 88);
            for i in 0..88 {
                assert!(tb[i] == gen::LEX_A_AB_TRIE[i], "the reloaded trie differs");
            }
            for i in 0..2 {
                let wi = WordIdx { lex_type: LexType::System, word_id: i };
                assert!(l2.word_param(wi) == lex.word_param(wi));
            }
            core::mem::forget(tb);
        }
        Err(_) => assert!(false, "the encoded lexicon does not decode"),
    }
    core::mem::forget(d);
    core::mem::forget(lex);
}

//@ c05_twin {"expect":"fail","desc":"vacuity twin: claims the reloaded matrix differs from the written one","bounds":"as c05_roundtrip_matrix","symbolic":"cells, parameters","functions":["Dictionary::write","Dictionary::read"],"fs":5000,"unwind":24,"unwindset":["memcmp:24","ElemWriter:200"],"timeout":2400,"mem_gb":24,"covers":"none","stubs":["alloc::fmt::format","unty::type_equal"]}
#[cfg(kani)]
#[kani::proof]
#[kani::stub(alloc::fmt::format, crate::c06::stub_format)]
#[kani::stub(unty::type_equal, crate::csvstub::stub_type_equal)]
fn c05_twin() {
    let d = sym_dictionary(ConnectorWrapper::Matrix(sym_matrix(2, 2)), false, false, 2, 2);
    let mut w = ElemWriter::new();
    let n = write_of(&d, &mut w);
    if let Ok(d2) = Dictionary::read(CutReader::new(&w.buf, n)) {
        assert!(matrix_of(d2.verif_connector()).verif_data()[0] != matrix_of(d.verif_connector()).verif_data()[0], "VACUITY: the cell round-trips");
        core::mem::forget(d2);
    }
    core::mem::forget(d);
}
