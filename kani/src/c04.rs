//! C04: a worker's result depends only on dictionary, options and sentence (histories).
//!
//! Concrete operation sequences on one worker, symbolic costs/ids/matrix; the final result is
//! compared with a fresh worker of the same tokenizer.  Plus the inductive steps: `Lattice::reset`
//! and `Worker::reset_sentence` from an arbitrary prior state.
use crate::util::*;
use crate::world::*;
use vibrato::dictionary::Dictionary;
use vibrato::tokenizer::worker::Worker;
use vibrato::tokenizer::Tokenizer;
use vibrato::verif_hooks::*;

const S1: Spec = Spec { sys: L_A_AB, user: None, cats: CATS_MIX, unk_mult: &[1, 1, 1], nr: 2, nl: 2 };

fn same_node(a: &Node, b: &Node) -> bool {
    a.word_id == b.word_id
        && a.lex_type == b.lex_type
        && a.start_node == b.start_node
        && a.start_word == b.start_word
        && a.left_id == b.left_id
        && a.right_id == b.right_id
        && a.min_idx == b.min_idx
        && a.min_cost == b.min_cost
}

/// Same token list (every field every accessor reads) and same sentence buffers.
#[cfg(kani)]
fn assert_same_result(w: &Worker, fresh: &Worker, n: usize) {
    assert!(w.num_tokens() == fresh.num_tokens(), "token count depends on the worker's history");
    let a = w.verif_top_nodes();
    let b = fresh.verif_top_nodes();
    for i in 0..n {
        if i < a.len() && i < b.len() {
            assert!(a[i].0 == b[i].0 && same_node(&a[i].1, &b[i].1), "a token depends on the worker's history");
        }
    }
    let (sa, sb) = (w.verif_sent(), fresh.verif_sent());
    assert!(sa.len_char() == sb.len_char() && sa.len_char() == n);
    assert!(sa.raw().len() == sb.raw().len());
    for i in 0..n {
        assert!(sa.chars()[i] == sb.chars()[i]);
        assert!(sa.byte_position(i) == sb.byte_position(i));
        assert!(sa.char_info(i).verif_raw() == sb.char_info(i).verif_raw());
        assert!(sa.groupable(i) == sb.groupable(i), "stale grouping information from an earlier sentence");
    }
    if n > 0 {
        assert!(sa.byte_position(n) == sb.byte_position(n));
        assert!(sa.verif_c2b().len() == n + 1 && sa.verif_groupable().len() == n && sa.verif_cinfos().len() == n);
    }
}

//@ c04_tokenize_twice {"desc":"tokenize() invoked twice for the same sentence gives the same tokens as once","bounds":"sentence \"c\"; dictionary S1; history reset,tokenize,tokenize","symbolic":"costs, ids, matrix","functions":["Worker::tokenize","Worker::reset_sentence","Lattice::reset","Lattice::append_top_nodes"],"fs":2048,"unwind":6,"timeout":1200,"mem_gb":16}
#[cfg(kani)]
#[kani::proof]
fn c04_tokenize_twice() {
    let tok_owned = tokenizer_of(&S1, false, 0);
    let tok = &tok_owned;
    let mut w = tok.new_worker();
    w.reset_sentence("\u{3}");
    w.tokenize();
    w.tokenize();
    let mut f = tok.new_worker();
    f.reset_sentence("\u{3}");
    f.tokenize();
    assert_same_result(&w, &f, 1);
    kani::cover!(f.num_tokens() == 1);
    core::mem::forget(w);
    core::mem::forget(f);
    core::mem::forget(tok_owned);
}

//@ c04_tokenize_step {"desc":"tokenize() from the state a previous tokenize() leaves behind (result list non-empty, same sentence): the result equals a fresh worker's -- the step that makes repeated tokenize idempotent","bounds":"sentence \"c\"; one arbitrary leftover entry in the result list; dictionary S1","symbolic":"leftover entry, costs, ids, matrix","functions":["Worker::tokenize","Lattice::append_top_nodes","Worker::num_tokens"],"fs":2048,"unwind":6,"timeout":900,"mem_gb":16}
#[cfg(kani)]
#[kani::proof]
fn c04_tokenize_step() {
    let tok_owned = tokenizer_of(&S1, false, 0);
    let tok = &tok_owned;
    let mut w = tok.new_worker();
    w.reset_sentence("\u{3}");
    let mut nd = Node::default();
    nd.start_word = kani::any();
    nd.word_id = kani::any();
    nd.min_cost = kani::any();
    w.verif_top_nodes_mut().push((kani::any(), nd));
    w.tokenize();
    let mut f = tok.new_worker();
    f.reset_sentence("\u{3}");
    f.tokenize();
    assert!(f.num_tokens() == 1);
    assert!(w.num_tokens() == f.num_tokens(), "tokenize() keeps entries of an earlier tokenize()");
    assert_same_result(&w, &f, 1);
    kani::cover!(f.num_tokens() == 1);
    core::mem::forget(w);
    core::mem::forget(f);
    core::mem::forget(tok_owned);
}

//@ c04_long_then_short {"desc":"a shorter sentence after a longer one: result equals a fresh worker's","bounds":"history reset(\"ab\"),tokenize,reset(\"c\"),tokenize; dictionary S1","symbolic":"costs, ids, matrix","functions":["Worker::reset_sentence","Sentence::clear","Sentence::compile","Lattice::reset","Lattice::reset_vec","Worker::tokenize"],"fs":2048,"unwind":6,"timeout":1200,"mem_gb":16}
#[cfg(kani)]
#[kani::proof]
fn c04_long_then_short() {
    let tok_owned = tokenizer_of(&S1, false, 0);
    let tok = &tok_owned;
    let mut w = tok.new_worker();
    w.reset_sentence("\u{1}\u{2}");
    w.tokenize();
    w.reset_sentence("\u{3}");
    w.tokenize();
    let mut f = tok.new_worker();
    f.reset_sentence("\u{3}");
    f.tokenize();
    assert_same_result(&w, &f, 1);
    kani::cover!(f.num_tokens() == 1);
    core::mem::forget(w);
    core::mem::forget(f);
    core::mem::forget(tok_owned);
}

//@ c04_short_then_long {"desc":"a longer sentence after a shorter one (lattice grows): result equals a fresh worker's","bounds":"history reset(\"c\"),tokenize,reset(\"ab\"),tokenize; dictionary S1","symbolic":"costs, ids, matrix","functions":["Worker::reset_sentence","Lattice::reset","Lattice::reset_vec","Worker::tokenize"],"fs":2048,"unwind":6,"timeout":1200,"mem_gb":16}
#[cfg(kani)]
#[kani::proof]
fn c04_short_then_long() {
    let tok_owned = tokenizer_of(&S1, false, 0);
    let tok = &tok_owned;
    let mut w = tok.new_worker();
    w.reset_sentence("\u{3}");
    w.tokenize();
    w.reset_sentence("\u{1}\u{2}");
    w.tokenize();
    let mut f = tok.new_worker();
    f.reset_sentence("\u{1}\u{2}");
    f.tokenize();
    assert_same_result(&w, &f, 2);
    kani::cover!(f.num_tokens() == 1);
    core::mem::forget(w);
    core::mem::forget(f);
    core::mem::forget(tok_owned);
}

//@ c04_empty_between {"desc":"an empty sentence between two sentences leaves no trace; reading tokens in between does not matter","bounds":"history reset(\"c\"),tokenize,reset(\"\"),tokenize,reset(\"c\"),tokenize; dictionary S1","symbolic":"costs, ids, matrix","functions":["Worker::reset_sentence","Worker::tokenize","Worker::num_tokens","Worker::token"],"fs":2048,"unwind":6,"timeout":1200,"mem_gb":16,"covers":"none"}
#[cfg(kani)]
#[kani::proof]
fn c04_empty_between() {
    let tok_owned = tokenizer_of(&S1, false, 0);
    let tok = &tok_owned;
    let mut w = tok.new_worker();
    w.reset_sentence("\u{3}");
    w.tokenize();
    assert!(w.num_tokens() == 1);
    w.reset_sentence("");
    w.tokenize();
    assert!(w.num_tokens() == 0);
    w.reset_sentence("\u{3}");
    w.tokenize();
    let mut f = tok.new_worker();
    f.reset_sentence("\u{3}");
    f.tokenize();
    assert_same_result(&w, &f, 1);
    core::mem::forget(w);
    core::mem::forget(f);
    core::mem::forget(tok_owned);
}

//@ c04_reset_without_tokenize {"tier":"thorough","desc":"reset_sentence twice without tokenizing in between, then tokenize","bounds":"history reset(\"ab\"),reset(\"ca\"),tokenize; dictionary S1","symbolic":"costs, ids, matrix","functions":["Worker::reset_sentence","Worker::tokenize"],"fs":2048,"unwind":6,"timeout":1200,"mem_gb":16}
#[cfg(kani)]
#[kani::proof]
fn c04_reset_without_tokenize() {
    let tok_owned = tokenizer_of(&S1, false, 0);
    let tok = &tok_owned;
    let mut w = tok.new_worker();
    w.reset_sentence("\u{1}\u{2}");
    w.reset_sentence("\u{3}\u{1}");
    w.tokenize();
    let mut f = tok.new_worker();
    f.reset_sentence("\u{3}\u{1}");
    f.tokenize();
    assert_same_result(&w, &f, 2);
    kani::cover!(f.num_tokens() == 2);
    core::mem::forget(w);
    core::mem::forget(f);
    core::mem::forget(tok_owned);
}

/// Inductive step: `Lattice::reset(n)` from an arbitrary prior state (an earlier length, arbitrary
/// leftover nodes at every boundary, a leftover EOS) yields the canonical start state.
/// Lengths are the concrete structure of an instance; node contents are symbolic.
#[cfg(kani)]
fn lattice_reset_step(prev: usize, n: usize) {
    let mut lat = Lattice::default();
    // reach a prior state through the real API first ...
    lat.reset(prev);
    // ... then scribble two arbitrary leftovers into every boundary list
    for b in 0..=prev {
        for _ in 0..2 {
            let mut nd = Node::default();
            nd.min_cost = kani::any();
            nd.right_id = kani::any();
            nd.start_node = kani::any();
            lat.verif_ends_mut()[b].push(nd);
        }
    }
    if kani::any() {
        lat.verif_set_eos(Some(Node::default()));
    }
    lat.reset(n);
    assert!(lat.len_char() == n);
    assert!(lat.verif_eos().is_none());
    let ends = lat.verif_ends();
    assert!(ends.len() >= n + 1);
    assert!(ends[0].len() == 1);
    let bos = &ends[0][0];
    assert!(bos.min_cost == 0 && bos.right_id == 0);
    let m = if prev > n { prev } else { n };
    for b in 1..=m {
        assert!(ends[b].is_empty(), "a boundary keeps nodes of an earlier sentence");
        assert!(!lat.has_previous_node(b));
    }
    assert!(lat.has_previous_node(0));
    assert!(!lat.has_previous_node(m + 1));
    kani::cover!(ends.len() == m + 1);
    core::mem::forget(lat);
}

//@ c04_lattice_reset_3_1 {"desc":"Lattice::reset to a shorter sentence from an arbitrary prior state: every boundary list is empty except BOS at 0, EOS cleared","bounds":"prior length 3 with 2 arbitrary leftover nodes per boundary (+BOS), new length 1","symbolic":"leftover node contents, leftover EOS","functions":["Lattice::reset","Lattice::reset_vec","Lattice::insert_bos","Lattice::has_previous_node","Lattice::len_char"],"fs":2048,"unwind":7,"timeout":900}
#[cfg(kani)]
#[kani::proof]
fn c04_lattice_reset_3_1() {
    lattice_reset_step(3, 1)
}

//@ c04_lattice_reset_1_3 {"desc":"Lattice::reset to a longer sentence from an arbitrary prior state","bounds":"prior length 1, new length 3","symbolic":"leftover node contents, leftover EOS","functions":["Lattice::reset","Lattice::reset_vec","Lattice::insert_bos"],"fs":2048,"unwind":7,"timeout":900}
#[cfg(kani)]
#[kani::proof]
fn c04_lattice_reset_1_3() {
    lattice_reset_step(1, 3)
}

//@ c04_lattice_reset_2_2 {"tier":"thorough","desc":"Lattice::reset to the same length from an arbitrary prior state","bounds":"prior length 2, new length 2","symbolic":"leftover node contents, leftover EOS","functions":["Lattice::reset","Lattice::reset_vec","Lattice::insert_bos"],"fs":2048,"unwind":7,"timeout":900}
#[cfg(kani)]
#[kani::proof]
fn c04_lattice_reset_2_2() {
    lattice_reset_step(2, 2)
}

/// Inductive step for the worker: whatever the result list held, `reset_sentence` empties it,
/// and the sentence buffers afterwards are those of a fresh worker.
//@ c04_reset_sentence_step {"desc":"Worker::reset_sentence from an arbitrary prior result list and a prior sentence: result list empty, sentence buffers equal a fresh worker's","bounds":"prior sentence \"ab\" compiled; 0..2 arbitrary leftover result entries; new sentence \"c\" or \"\"","symbolic":"leftover entries, which new sentence, costs/ids/matrix","functions":["Worker::reset_sentence","Sentence::clear","Sentence::set_sentence","Sentence::compile"],"fs":2048,"unwind":6,"timeout":900}
#[cfg(kani)]
#[kani::proof]
fn c04_reset_sentence_step() {
    let tok_owned = tokenizer_of(&S1, false, 0);
    let tok = &tok_owned;
    let mut w = tok.new_worker();
    w.reset_sentence("\u{1}\u{2}");
    let k = any_below(3);
    for i in 0..2 {
        if i < k {
            let mut nd = Node::default();
            nd.start_word = kani::any();
            nd.word_id = kani::any();
            w.verif_top_nodes_mut().push((kani::any(), nd));
        }
    }
    let empty: bool = kani::any();
    let mut f = tok.new_worker();
    if empty {
        w.reset_sentence("");
        f.reset_sentence("");
        assert!(w.num_tokens() == 0);
        assert!(w.verif_sent().len_char() == 0 && w.verif_sent().raw().is_empty());
        assert!(w.verif_sent().verif_c2b().is_empty() && w.verif_sent().verif_groupable().is_empty());
    } else {
        w.reset_sentence("\u{3}");
        f.reset_sentence("\u{3}");
        assert!(w.num_tokens() == 0);
        assert_same_result(&w, &f, 1);
    }
    kani::cover!(k == 2 && empty);
    kani::cover!(k == 2 && !empty);
    core::mem::forget(w);
    core::mem::forget(f);
    core::mem::forget(tok_owned);
}

/// Compile-time part of the statement: the tokenizer (and the dictionary) can be shared
/// across threads.  Not a solver result; Kani does not model threads.
fn assert_send_sync<T: Send + Sync>() {}
pub fn tokenizer_is_send_sync() {
    assert_send_sync::<Tokenizer>();
    assert_send_sync::<Dictionary>();
}

//@ c04_twin {"expect":"fail","desc":"vacuity twin: claims a reused worker always holds one token after \"ab\"","bounds":"S1","symbolic":"costs, ids, matrix","functions":["Worker::tokenize"],"fs":2048,"unwind":6,"timeout":900,"covers":"none"}
#[cfg(kani)]
#[kani::proof]
fn c04_twin() {
    let tok_owned = tokenizer_of(&S1, false, 0);
    let tok = &tok_owned;
    let mut w = tok.new_worker();
    w.reset_sentence("\u{3}");
    w.tokenize();
    w.reset_sentence("\u{1}\u{2}");
    w.tokenize();
    assert!(w.num_tokens() == 1, "VACUITY: two-token results exist");
    core::mem::forget(w);
    core::mem::forget(tok_owned);
}
