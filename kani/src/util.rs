//! Shared builders for the harnesses: symbolic values inside concrete structure.
#![allow(unused)]
use vibrato::dictionary::Dictionary;
use vibrato::tokenizer::Tokenizer;
use vibrato::verif_hooks::*;

/// Constants generated natively by /verif/gen from the current /repo tree.
pub mod gen {
    include!(concat!(env!("VERIF_GEN_DIR"), "/gen.rs"));
}

#[cfg(kani)]
pub fn any_below_u16(n: usize) -> u16 {
    let x: u16 = kani::any();
    kani::assume((x as usize) < n);
    x
}

#[cfg(kani)]
pub fn any_below(n: usize) -> usize {
    let x: usize = kani::any();
    kani::assume(x < n);
    x
}

/// A connection matrix with `nr` right ids and `nl` left ids and arbitrary i16 cells.
#[cfg(kani)]
pub fn sym_matrix(nr: usize, nl: usize) -> MatrixConnector {
    let mut data = Vec::with_capacity(nr * nl);
    for _ in 0..nr * nl {
        data.push(kani::any::<i16>());
    }
    MatrixConnector::new(data, nr, nl)
}

/// A word parameter with arbitrary cost and ids inside the connector.
#[cfg(kani)]
pub fn sym_param(nr: usize, nl: usize) -> WordParam {
    WordParam::new(any_below_u16(nl), any_below_u16(nr), kani::any())
}

/// Arbitrary character info over `ncat` categories satisfying the representation invariant
/// that `CharProperty::from_reader` establishes: the primary category is one of the
/// categories and is a member of the category set.
#[cfg(kani)]
pub fn sym_charinfo(ncat: usize) -> CharInfo {
    let base = any_below(ncat) as u32;
    let set: u32 = kani::any();
    kani::assume(set < (1u32 << ncat));
    kani::assume(set & (1 << base) != 0);
    let length: u16 = kani::any();
    kani::assume(length < 16);
    CharInfo::new(set, base, kani::any(), kani::any(), length).unwrap()
}

/// An unknown-word handler with `mult[c]` entries for category `c`, arbitrary parameters.
#[cfg(kani)]
pub fn sym_unk(mult: &[usize], nr: usize, nl: usize) -> UnkHandler {
    let mut offsets = Vec::with_capacity(mult.len() + 1);
    let mut entries = Vec::new();
    for (c, &m) in mult.iter().enumerate() {
        offsets.push(entries.len());
        for _ in 0..m {
            let p = sym_param(nr, nl);
            entries.push(UnkEntry {
                cate_id: c as u16,
                left_id: p.left_id,
                right_id: p.right_id,
                word_cost: p.word_cost,
                feature: String::new(),
            });
        }
    }
    offsets.push(entries.len());
    UnkHandler::verif_from_parts(offsets, entries)
}

#[cfg(kani)]
pub fn sym_lexicon(trie: &[u8], post: &[u32], nwords: usize, nr: usize, nl: usize, t: LexType) -> Lexicon {
    let mut params = Vec::with_capacity(nwords);
    let mut feats = Vec::with_capacity(nwords);
    for _ in 0..nwords {
        params.push(sym_param(nr, nl));
        feats.push(String::new());
    }
    Lexicon::verif_from_parts(trie, copy_u32(post), params, feats, t)
}

/// Element-wise copy (a `to_vec()` is a memcpy, through which CBMC does not propagate constants).
pub fn copy_u32(src: &[u32]) -> Vec<u32> {
    // one spare slot: a slice ending exactly at the end of a heap object makes CBMC's
    // pointer-equality folding fail in iterator exhaustion checks (measured: 89 s vs 4 s)
    let mut v = Vec::with_capacity(src.len() + 1);
    for &x in src {
        v.push(x);
    }
    v
}

pub fn cat_names(ncat: usize, space: Option<usize>) -> Vec<String> {
    let mut v = Vec::with_capacity(ncat);
    for c in 0..ncat {
        if Some(c) == space {
            v.push(String::from("SPACE"));
        } else if c == 0 {
            v.push(String::from("DEFAULT"));
        } else {
            v.push(String::from("C"));
        }
    }
    v
}

/// Builds a `Sentence` from its concrete characters without going through the heap
/// `String` iteration of `compute_basic` (covered by its own harness), then runs the real
/// category lookup and the real `compute_groupable`.
pub fn sentence_of(chars: &[char], prop: &CharProperty) -> Sentence {
    let mut input = String::new();
    // one spare slot so that suffix slices do not end exactly at the end of the heap object:
    // CBMC cannot decide `one-past-the-end pointer != NULL`, which is how the niche-encoded
    // `Option` inside `flat_map`'s `Fuse` tests for exhaustion (measured: 6 s vs 1 s on a toy).
    let mut cs = Vec::with_capacity(chars.len() + 1);
    let mut c2b = Vec::with_capacity(chars.len() + 1);
    let mut b = 0;
    for &c in chars {
        input.push(c);
        cs.push(c);
        c2b.push(b);
        b += c.len_utf8();
    }
    c2b.push(b);
    let mut s = Sentence::verif_from_parts(input, cs, c2b, Vec::new(), Vec::new());
    s.verif_compute_categories(prop);
    s.verif_compute_groupable();
    s
}

pub fn matrix_of(w: &ConnectorWrapper) -> &MatrixConnector {
    match w {
        ConnectorWrapper::Matrix(c) => c,
        _ => unreachable!(),
    }
}

/// A `std::io::Read` over a byte slice that copies element by element.  `impl Read for &[u8]`
/// uses `copy_from_slice` (memcpy), through which CBMC does not propagate the image's constant
/// bytes; every decoded length then becomes symbolic.  `Dictionary::read` is generic over the
/// reader; this is the instantiation the harnesses verify.
pub struct ByteReader<'a> {
    pub data: &'a [u8],
    pub pos: usize,
    pub end: usize,
    /// report end-of-stream as an error value instead of a 0-byte read
    pub hard_eof: bool,
}

impl<'a> ByteReader<'a> {
    pub fn new(data: &'a [u8], end: usize) -> Self {
        Self { data, pos: 0, end, hard_eof: false }
    }

    pub fn hard(data: &'a [u8], end: usize) -> Self {
        Self { data, pos: 0, end, hard_eof: true }
    }
}

impl<'a> std::io::Read for ByteReader<'a> {
    fn read(&mut self, buf: &mut [u8]) -> std::io::Result<usize> {
        let lim = if self.end < self.data.len() { self.end } else { self.data.len() };
        let avail = if lim > self.pos { lim - self.pos } else { 0 };
        if avail == 0 && !buf.is_empty() && self.hard_eof {
            return Err(std::io::Error::from(std::io::ErrorKind::UnexpectedEof));
        }
        let n = if buf.len() < avail { buf.len() } else { avail };
        let mut i = 0;
        while i < n {
            buf[i] = self.data[self.pos + i];
            i += 1;
        }
        self.pos += n;
        Ok(n)
    }
}


/// A raw (bigram feature) connector with `nr` x `nl` ids, 3 template positions padded to one
/// 8-lane block, arbitrary small feature ids and an arbitrary 3-base / 4-cell scorer with bounded
/// costs.  Row 0 (BOS/EOS) is arbitrary as well.
#[cfg(kani)]
pub fn sym_raw_connector(nr: usize, nl: usize) -> RawConnector {
    let mut b = Vec::with_capacity(3);
    let mut ch = Vec::with_capacity(4);
    let mut co = Vec::with_capacity(4);
    for _ in 0..3 {
        b.push(kani::any::<u32>());
    }
    for _ in 0..4 {
        ch.push(kani::any::<u32>());
        let c: i32 = kani::any();
        kani::assume(c > -(1 << 20) && c < (1 << 20));
        co.push(c);
    }
    let sc = Scorer::verif_from_parts(b, ch, co);
    // concrete feature rows (symbolic rows are the subject of the C07 harnesses); the costs the
    // scorer lists for them are symbolic
    let mut rows_r = Vec::with_capacity(nr);
    let mut rows_l = Vec::with_capacity(nl);
    for i in 0..nr {
        rows_r.push(concrete_feature_block(i as u32, 3));
    }
    for i in 0..nl {
        rows_l.push(concrete_feature_block(i as u32 + 1, 3));
    }
    RawConnector::new(rows_r, rows_l, 1, sc)
}

pub fn concrete_feature_block(seed: u32, t: usize) -> U31x8 {
    let mut a = [INVALID_FEATURE_ID; 8];
    for i in 0..8 {
        if i < t {
            a[i] = U31::new((seed + i as u32) % 3).unwrap();
        }
    }
    U31x8::verif_from_array(a)
}

#[cfg(kani)]
pub fn sym_feature_block(t: usize) -> U31x8 {
    let mut a = [INVALID_FEATURE_ID; 8];
    for i in 0..8 {
        if i < t {
            let x: u32 = kani::any();
            kani::assume(x < 4);
            a[i] = U31::new(x).unwrap();
        }
    }
    U31x8::verif_from_array(a)
}

/// A dual connector: 2x2 class matrix, arbitrary class maps (id 0 -> class 0), one raw block per id.
#[cfg(kani)]
pub fn sym_dual_connector(nr: usize, nl: usize) -> DualConnector {
    let m = sym_matrix(2, 2);
    let mut rmap = Vec::with_capacity(nr);
    let mut lmap = Vec::with_capacity(nl);
    let mut rows_r = Vec::with_capacity(nr);
    let mut rows_l = Vec::with_capacity(nl);
    for i in 0..nr {
        rmap.push(if i == 0 { 0 } else { any_below_u16(2) });
        rows_r.push(sym_feature_block(8));
    }
    for i in 0..nl {
        lmap.push(if i == 0 { 0 } else { any_below_u16(2) });
        rows_l.push(sym_feature_block(8));
    }
    let mut b = Vec::with_capacity(3);
    let mut ch = Vec::with_capacity(4);
    let mut co = Vec::with_capacity(4);
    for _ in 0..3 {
        b.push(kani::any::<u32>());
    }
    for _ in 0..4 {
        ch.push(kani::any::<u32>());
        let c: i32 = kani::any();
        kani::assume(c > -(1 << 20) && c < (1 << 20));
        co.push(c);
    }
    DualConnector::verif_from_parts(m, rmap, lmap, rows_r, rows_l, Scorer::verif_from_parts(b, ch, co))
}


/// A reader for truncation harnesses: the stream is `data[..end]` with a possibly *symbolic*
/// `end`.  `read_exact` is overridden so that (a) the position advances by the requested length
/// on both outcomes and therefore stays a constant for symex, (b) the only symbolic thing is the
/// `Ok`/`Err` outcome `pos + len <= end`, and (c) `std`'s default `read_exact` loop, which inspects
/// the bit-packed `io::Error` (`is_interrupted`) and does not fold, is not involved.  After an
/// `Err` the decoder returns, so the advanced position is never used again.
#[derive(Debug)]
pub struct Eof(pub u8);
impl core::fmt::Display for Eof {
    fn fmt(&self, _f: &mut core::fmt::Formatter<'_>) -> core::fmt::Result {
        Ok(())
    }
}
impl std::error::Error for Eof {}

pub struct CutReader<'a> {
    pub data: &'a [u8],
    pub pos: usize,
    /// the stream ends at `base + off`; `base` and `width` are concrete, `off < width` may be symbolic
    pub base: usize,
    pub off: usize,
    pub width: usize,
}

impl<'a> CutReader<'a> {
    /// a stream cut at the concrete position `end`
    pub fn new(data: &'a [u8], end: usize) -> Self {
        Self { data, pos: 0, base: end, off: 0, width: 1 }
    }

    /// a stream cut somewhere in the window `base .. base + width` (`off` symbolic): reads that end
    /// before the window succeed and reads that end after it fail *concretely*; only the reads
    /// that straddle the window have a symbolic outcome
    pub fn window(data: &'a [u8], base: usize, off: usize, width: usize) -> Self {
        Self { data, pos: 0, base, off, width }
    }
}

impl<'a> std::io::Read for CutReader<'a> {
    fn read(&mut self, buf: &mut [u8]) -> std::io::Result<usize> {
        // not used by bincode's IoReader (it calls read_exact); kept total for completeness
        match self.read_exact(buf) {
            Ok(()) => Ok(buf.len()),
            Err(e) => Err(e),
        }
    }

    fn read_exact(&mut self, buf: &mut [u8]) -> std::io::Result<()> {
        let start = self.pos;
        let n = buf.len();
        self.pos = start + n;
        let beyond_data = start + n > self.data.len();
        // The bytes are delivered whenever the underlying data has them, even if the stream is
        // cut before: bincode's `Result` plumbing (`?` through niche-encoded enums) does not fold
        // under CBMC, so the continuation after an `Err` is explored although it is infeasible.
        // With the real bytes in the buffer that continuation stays concrete and cheap, and the
        // solver discards it; with an unwritten buffer it would decode nondeterministic lengths.
        if !beyond_data {
            let mut i = 0;
            while i < n {
                buf[i] = self.data[start + i];
                i += 1;
            }
        }
        let e = start + n;
        let cut = if e <= self.base {
            false
        } else if e > self.base + self.width - 1 {
            true
        } else {
            e > self.base + self.off
        };
        if beyond_data || cut {
            // a boxed (heap) error rather than the bit-packed `io::Error::from(ErrorKind)`
            return Err(std::io::Error::new(std::io::ErrorKind::UnexpectedEof, Eof(1)));
        }
        Ok(())
    }
}

/// A reader whose `read` hands out at most `chunk` bytes per call (a pipe or socket), on top of
/// `CutReader`.  `read_exact` is the one of `CutReader`.
pub struct ShortReader<'a> {
    pub inner: CutReader<'a>,
    pub chunk: usize,
}

impl<'a> std::io::Read for ShortReader<'a> {
    fn read(&mut self, buf: &mut [u8]) -> std::io::Result<usize> {
        let mut n = buf.len();
        if n > self.chunk {
            n = self.chunk;
        }
        if self.inner.pos + n > self.inner.data.len() {
            n = self.inner.data.len() - self.inner.pos;
        }
        match self.inner.read_exact(&mut buf[..n]) {
            Ok(()) => Ok(n),
            Err(e) => Err(e),
        }
    }

    fn read_exact(&mut self, buf: &mut [u8]) -> std::io::Result<()> {
        self.inner.read_exact(buf)
    }
}
