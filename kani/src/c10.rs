//! C10: numeric / packing kernels of the builders.
use vibrato::verif_hooks::*;

//@ c10_charinfo_pack {"desc":"CharInfo::new accepts exactly the values that fit 18/8/1/1/4 bits and the accessors return them","bounds":"none: all u32 x u32 x bool x bool x u16","symbolic":"all five arguments","functions":["CharInfo::new","CharInfo::cate_idset","CharInfo::base_id","CharInfo::invoke","CharInfo::group","CharInfo::length"],"timeout":120}
#[cfg(kani)]
#[kani::proof]
fn c10_charinfo_pack() {
    let cate: u32 = kani::any();
    let base: u32 = kani::any();
    let invoke: bool = kani::any();
    let group: bool = kani::any();
    let length: u16 = kani::any();
    match CharInfo::new(cate, base, invoke, group, length) {
        Some(ci) => {
            assert!(cate < (1 << 18) && base < 256 && length < 16);
            assert!(ci.cate_idset() == cate);
            assert!(ci.base_id() == base);
            assert!(ci.invoke() == invoke);
            assert!(ci.group() == group);
            assert!(ci.length() == length);
            kani::cover!(length == 15 && base == 255);
        }
        None => {
            assert!(cate >= (1 << 18) || base >= 256 || length >= 16);
        }
    }
}
