//! C10: numeric / packing kernels of the builders.
use vibrato::verif_hooks::*;

//@ c10_charinfo_pack {"desc":"CharInfo::new accepts exactly the values that fit 18/8/1/1/4 bits and the accessors return them","bounds":"none: all u32 x u32 x bool x bool x u16","symbolic":"all five arguments","functions":["CharInfo::new","CharInfo::cate_idset","CharInfo::base_id","CharInfo::invoke","CharInfo::group","CharInfo::length"],"timeout":120}
#[cfg(kani)]
#[kani::proof]
fn c10_charinfo_pack() {
    let cate: u32 = kani::any();
    let base: u32 = kani::any();
    let invoke: bool = kani::any();
    let group: bool = kani::any();
    let length: u16 = kani::any();
    match CharInfo::new(cate, base, invoke, group, length) {
        Some(ci) => {
            assert!(cate < (1 << 18) && base < 256 && length < 16);
            assert!(ci.cate_idset() == cate);
            assert!(ci.base_id() == base);
            assert!(ci.invoke() == invoke);
            assert!(ci.group() == group);
            assert!(ci.length() == length);
            kani::cover!(length == 15 && base == 255);
        }
        None => {
            assert!(cate >= (1 << 18) || base >= 256 || length >= 16);
        }
    }
}

use crate::util::*;
use crate::world::*;
use vibrato::tokenizer::Tokenizer;

//@ c10_matrix_index {"desc":"MatrixConnector::cost reads the cell of (right,left) for every in-range pair: index arithmetic never leaves the table and no two pairs alias","bounds":"2 right x 3 left ids","symbolic":"all cells, the queried pair","functions":["MatrixConnector::cost","MatrixConnector::index","MatrixConnector::new"],"fs":2048,"unwind":8,"timeout":600}
#[cfg(kani)]
#[kani::proof]
fn c10_matrix_index() {
    let (nr, nl) = (2usize, 3usize);
    let conn = sym_matrix(nr, nl);
    let r = any_below_u16(nr);
    let l = any_below_u16(nl);
    let got = conn.cost(r, l);
    let d = conn.verif_data();
    let mut want = 0i32;
    for li in 0..nl {
        for ri in 0..nr {
            if li == l as usize && ri == r as usize {
                want = i32::from(d[li * nr + ri]);
            }
        }
    }
    assert!(got == want);
    assert!(conn.num_left() == nl && conn.num_right() == nr);
    kani::cover!(r == 1 && l == 2);
    core::mem::forget(conn);
}

//@ c10_verify_ids {"desc":"Lexicon::verify and UnkHandler::verify accept exactly the entries whose ids lie inside the connector; an accepted entry's cost lookup is in range","bounds":"2 lexicon words, 2 unknown entries, connector 2 right x 3 left ids; ids any u16","symbolic":"all ids and costs, matrix cells","functions":["Lexicon::verify","UnkHandler::verify","MatrixConnector::cost"],"fs":2048,"unwind":8,"timeout":900}
#[cfg(kani)]
#[kani::proof]
fn c10_verify_ids() {
    let (nr, nl) = (2usize, 3usize);
    let conn = sym_matrix(nr, nl);
    let mut params = Vec::with_capacity(2);
    let mut feats = Vec::with_capacity(2);
    let mut ok = true;
    let mut copy = [WordParam::default(); 2];
    for i in 0..2 {
        let p = WordParam::new(kani::any(), kani::any(), kani::any());
        if p.left_id as usize >= nl || p.right_id as usize >= nr {
            ok = false;
        }
        copy[i] = p;
        params.push(p);
        feats.push(String::new());
    }
    let lex = Lexicon::verif_from_parts(&gen::LEX_A_AB_TRIE, copy_u32(&gen::LEX_A_AB_POST), params, feats, LexType::System);
    assert!(lex.verify(&conn) == ok, "lexicon id verification disagrees with 'every id inside the connector'");
    if ok {
        // acceptance implies a safe lookup
        let _ = conn.cost(copy[0].right_id, copy[1].left_id);
    }
    let mut entries = Vec::with_capacity(2);
    let mut uok = true;
    for _ in 0..2 {
        let (l, r): (u16, u16) = (kani::any(), kani::any());
        if l as usize >= nl || r as usize >= nr {
            uok = false;
        }
        entries.push(UnkEntry { cate_id: 0, left_id: l, right_id: r, word_cost: kani::any(), feature: String::new() });
    }
    let unk = UnkHandler::verif_from_parts(vec![0, 2], entries);
    assert!(unk.verify(&conn) == uok, "unknown-entry id verification disagrees with 'every id inside the connector'");
    kani::cover!(ok && uok);
    kani::cover!(!ok && uok);
    core::mem::forget(lex);
    core::mem::forget(unk);
    core::mem::forget(conn);
}

const S_KF10: Spec = Spec { sys: L_A_AB, user: None, cats: CATS_MIX, unk_mult: &[0, 1, 1], nr: 2, nl: 2 };

//@ c10_kf_accepted_dictionary_panics {"desc":"acceptance implies safe use: a dictionary in which a char.def category has no unk.def entry passes the builder's checks (ids in range) but tokenizing a character of that category must not panic","bounds":"N=1 \"c\"; dictionary with zero DEFAULT unknown entries","symbolic":"costs, ids, matrix","functions":["Lexicon::verify","UnkHandler::verify","Worker::tokenize","UnkHandler::gen_unk_words","Lattice::insert_eos"],"fs":2048,"unwind":6,"timeout":600,"covers":"none"}
#[cfg(kani)]
#[kani::proof]
fn c10_kf_accepted_dictionary_panics() {
    let tok_owned = tokenizer_of(&S_KF10, false, 0);
    let tok = &tok_owned;
    // exactly what SystemDictionaryBuilder::build checks before returning a dictionary
    let d = tok.dictionary();
    assert!(d.verif_system_lexicon().verify(d.verif_connector()));
    assert!(d.verif_unk_handler().verify(d.verif_connector()));
    let mut w = tok.new_worker();
    w.reset_sentence("\u{3}");
    w.tokenize();
    assert!(w.num_tokens() == 1);
    core::mem::forget(w);
    core::mem::forget(tok_owned);
}

//@ c10_mapper_then_nonsquare {"desc":"arbitrary mapping sequences: composing two valid mappings of a non-square connector (what a second map_connection_ids_from_iter call does) never indexes outside either table and yields, on each side, the permutation 'first, then second'","bounds":"4 right ids x 3 left ids (id 0 fixed); both mappings arbitrary permutations","symbolic":"both mappings","functions":["ConnIdMapper::then","ConnIdMapper::left","ConnIdMapper::right"],"unwind":8,"timeout":600}
#[cfg(kani)]
#[kani::proof]
fn c10_mapper_then_nonsquare() {
    const NL: usize = 3;
    const NR: usize = 4;
    fn perm(n: usize, out: &mut [u16; 4]) -> Vec<u16> {
        let mut v = Vec::with_capacity(n + 1);
        let mut seen = [false; 4];
        for i in 0..n {
            let x: u16 = kani::any();
            kani::assume((x as usize) < n);
            kani::assume(if i == 0 { x == 0 } else { x != 0 });
            for k in 0..4 {
                if k == x as usize {
                    kani::assume(!seen[k]);
                    seen[k] = true;
                }
            }
            out[i] = x;
            v.push(x);
        }
        v
    }
    let (mut l1, mut r1, mut l2, mut r2) = ([0u16; 4], [0u16; 4], [0u16; 4], [0u16; 4]);
    let m1 = ConnIdMapper::new(perm(NL, &mut l1), perm(NR, &mut r1));
    let m2 = ConnIdMapper::new(perm(NL, &mut l2), perm(NR, &mut r2));
    let m = m1.then(&m2);
    assert!(m.num_left() == NL && m.num_right() == NR);
    for i in 0..NL {
        for k in 0..NL {
            if l1[i] as usize == k {
                assert!(m.left(i as u16) == l2[k], "composed left table is not 'first, then second'");
            }
        }
    }
    for i in 0..NR {
        for k in 0..NR {
            if r1[i] as usize == k {
                assert!(m.right(i as u16) == r2[k], "composed right table is not 'first, then second'");
            }
        }
    }
    kani::cover!(r1[1] == 3 && l1[1] == 2);
    core::mem::forget(m);
    core::mem::forget(m1);
    core::mem::forget(m2);
}

//@ c10_twin {"expect":"fail","desc":"vacuity twin: claims verify accepts every parameter","bounds":"as c10_verify_ids","symbolic":"ids","functions":["Lexicon::verify"],"fs":2048,"unwind":8,"timeout":600,"covers":"none"}
#[cfg(kani)]
#[kani::proof]
fn c10_twin() {
    let conn = sym_matrix(2, 3);
    let mut params = Vec::with_capacity(2);
    let mut feats = Vec::with_capacity(2);
    for _ in 0..2 {
        params.push(WordParam::new(kani::any(), kani::any(), kani::any()));
        feats.push(String::new());
    }
    let lex = Lexicon::verif_from_parts(&gen::LEX_A_AB_TRIE, copy_u32(&gen::LEX_A_AB_POST), params, feats, LexType::System);
    assert!(lex.verify(&conn), "VACUITY: out-of-range ids exist");
    core::mem::forget(lex);
    core::mem::forget(conn);
}
