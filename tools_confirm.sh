#!/bin/bash
# usage: tools_confirm.sh <worktree-id> <PROP>   confirm a seeded change independently and store it under /verif/seeded/
ID=$1; PROP=$2; W=/tmp/mut/$ID; OUT=/verif/seeded/$ID
cd $W || exit 1
DEMO=$(ls vibrato/tests/demo_*.rs 2>/dev/null | head -1)
[ -z "$DEMO" ] && { echo "no demo test found"; exit 1; }
NAME=$(basename $DEMO .rs)
mkdir -p $OUT
git diff -- vibrato/src map/src compile/src > $OUT/patch.diff
[ -s $OUT/patch.diff ] || { echo "empty patch"; exit 1; }
mv $DEMO /tmp/mut/$ID.demo.rs
R1=$(cargo test --workspace --offline 2>&1 | grep -E "^test result" | awk '{p+=$4; f+=$6} END{print p" passed "f" failed"}')
mv /tmp/mut/$ID.demo.rs $DEMO
R2=$(cargo test -p vibrato --offline --test $NAME 2>&1 | grep -E "^test result" | tail -1)
git stash -q -- vibrato/src map/src compile/src 2>/dev/null || git checkout -q -- vibrato/src
R3=$(cargo test -p vibrato --offline --test $NAME 2>&1 | grep -E "^test result" | tail -1)
git stash pop -q 2>/dev/null || git apply $OUT/patch.diff
cp $DEMO $OUT/; cp demo/README.md $OUT/README.agent.md 2>/dev/null
echo "suite_with_change: $R1"; echo "demo_with_change: $R2"; echo "demo_without_change: $R3"
python3 - "$ID" "$PROP" "$R1" "$R2" "$R3" <<'PY'
import json,sys
i,p,r1,r2,r3=sys.argv[1:]
json.dump({"id":i,"property":p,"suite_with_change":r1,"demo_with_change":r2,"demo_without_change":r3,
           "confirmed": ("0 failed" in r1) and ("FAILED" in r2) and (" ok." in r3),
           "ran":["cargo test --workspace --offline (change applied, demo set aside)","cargo test -p vibrato --offline --test <demo> (change applied)","same after reverting the change"]},
          open(f"/verif/seeded/{i}/meta.json","w"),indent=1)
PY
cat /verif/seeded/$ID/meta.json | grep confirmed
