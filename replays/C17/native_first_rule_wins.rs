//! Native demonstration of the C17 defect (needs `--features verif` for the re-export of the
//! crate-private rewriter): rules '*,x' 'a,y' '*,y' rewrite (a,y) with the third rule although the
//! second one matches and was registered earlier - the third rule re-uses the trie edge '*' that
//! the first rule created before the edge 'a' of the second.
//! Run: copy to vibrato/tests/ of a scratch checkout, `cargo test --features verif --test native_first_rule_wins`.
use vibrato::verif_hooks::{FeatureRewriter, FeatureRewriterBuilder};

#[test]
fn earliest_matching_rule_applies() {
    let mut b = FeatureRewriterBuilder::new();
    b.add_rule(&["*", "x"], &["1"]);
    b.add_rule(&["a", "y"], &["2"]);
    b.add_rule(&["*", "y"], &["3"]);
    let rw = FeatureRewriter::from(b);
    assert_eq!(rw.rewrite(&["a", "y"]), Some(vec!["2".to_string()]));
}
