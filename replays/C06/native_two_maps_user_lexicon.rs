use vibrato::{SystemDictionaryBuilder, Tokenizer};

fn dict() -> vibrato::Dictionary {
    // 4 left ids, 4 right ids; connection costs all distinct
    let lex = "a,1,1,10,A\n";
    let mut matrix = String::from("4 4\n");
    for r in 0..4 {
        for l in 0..4 {
            matrix.push_str(&format!("{} {} {}\n", r, l, 100 * r + 7 * l));
        }
    }
    let chardef = "DEFAULT 0 1 0\n";
    let unk = "DEFAULT,2,2,500,*\n";
    SystemDictionaryBuilder::from_readers(lex.as_bytes(), matrix.as_bytes(), chardef.as_bytes(), unk.as_bytes()).unwrap()
}

fn total(d: vibrato::Dictionary, s: &str) -> i32 {
    let t = Tokenizer::new(d);
    let mut w = t.new_worker();
    w.reset_sentence(s);
    w.tokenize();
    w.token(w.num_tokens() - 1).total_cost()
}

#[test]
fn user_lexicon_after_two_mappings() {
    let user = "b,3,2,5,B\n";
    let plain = dict().reset_user_lexicon_from_reader(Some(user.as_bytes())).unwrap();
    let want = total(plain, "ab");
    let mapped = dict()
        .map_connection_ids_from_iter([2u16, 3, 1], [3u16, 1, 2]).unwrap()
        .map_connection_ids_from_iter([1u16, 3, 2], [2u16, 1, 3]).unwrap()
        .reset_user_lexicon_from_reader(Some(user.as_bytes())).unwrap();
    assert_eq!(total(mapped, "ab"), want, "user lexicon ids mistranslated after two mappings");
}
