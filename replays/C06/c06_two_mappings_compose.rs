// Counterexample found by CBMC for harness `c06_two_mappings_compose` (property C06).
// Replay: ./check C06 --replay /verif/replays/C06/c06_two_mappings_compose.rs
/// Test generated for harness `c06::c06_two_mappings_compose` 
///
/// Check for `assertion`: ""the retained mapper is not the composition of the two mappings (left ids)""
///
/// # Warning
///
/// Concrete playback tests combined with stubs or contracts is highly
/// experimental, and subject to change.
///
/// The original harness has stubs which are not applied to this test.
/// This may cause a mismatch of non-deterministic values if the stub
/// creates any non-deterministic value.
/// The execution path may also differ, which can be used to refine the stub
/// logic.

#[test]
fn kani_concrete_playback_c06_two_mappings_compose_3565861552666816862() {
    let concrete_vals: Vec<Vec<u8>> = vec![
        // 0
        vec![0, 0],
        // 0
        vec![0, 0],
        // -1
        vec![255, 255],
        // 0
        vec![0, 0],
        // 0
        vec![0, 0],
        // -1
        vec![255, 255],
        // 0
        vec![0, 0],
        // 0
        vec![0, 0],
        // -1
        vec![255, 255],
        // -1
        vec![255, 255],
        // -1
        vec![255, 255],
        // -1
        vec![255, 255],
        // -1
        vec![255, 255],
        // -1
        vec![255, 255],
        // -1
        vec![255, 255],
        // -1
        vec![255, 255],
        // -1
        vec![255, 255],
        // -1
        vec![255, 255],
        // -1
        vec![255, 255],
        // -1
        vec![255, 255],
        // -1
        vec![255, 255],
        // -1
        vec![255, 255],
        // -1
        vec![255, 255],
        // -1
        vec![255, 255],
        // -1
        vec![255, 255],
        // 0
        vec![0, 0],
        // 0
        vec![0, 0],
        // -1
        vec![255, 255],
        // 0
        vec![0, 0],
        // 0
        vec![0, 0],
        // -1
        vec![255, 255],
        // 0
        vec![0, 0],
        // 0
        vec![0, 0],
        // -1
        vec![255, 255],
    ];
    kani::concrete_playback_run(concrete_vals, c06_two_mappings_compose);
}
