// Counterexample found by CBMC for harness `c13_counts_trailing_space` (property C13).
// Replay: ./check C13 --replay /verif/replays/C13/c13_counts_trailing_space.rs
/// Test generated for harness `c13::c13_counts_trailing_space` 
///
/// Check for `assertion`: ""left-id frequency differs from the number of connection-cost evaluations""

#[test]
fn kani_concrete_playback_c13_counts_trailing_space_586540118284322471() {
    let concrete_vals: Vec<Vec<u8>> = vec![
        // 1
        vec![1, 0],
        // 0
        vec![0, 0],
        // -4
        vec![252, 255],
        // 2
        vec![2, 0],
        // 2
        vec![2, 0],
        // -1
        vec![255, 255],
        // 16583
        vec![199, 64],
        // 16188
        vec![60, 63],
        // -16577
        vec![63, 191],
        // -16577
        vec![63, 191],
        // 16191
        vec![63, 63],
        // 16191
        vec![63, 63],
        // 16191
        vec![63, 63],
        // 16191
        vec![63, 63],
        // 16191
        vec![63, 63],
        // 2
        vec![2, 0],
        // 2
        vec![2, 0],
        // -1
        vec![255, 255],
        // 2
        vec![2, 0],
        // 2
        vec![2, 0],
        // 385
        vec![129, 1],
        // 2
        vec![2, 0],
        // 2
        vec![2, 0],
        // -1
        vec![255, 255],
    ];
    kani::concrete_playback_run(concrete_vals, c13_counts_trailing_space);
}
