// Counterexample found by CBMC for harness `c13_empty_first` (property C13).
// Replay: ./check C13 --replay /verif/replays/C13/c13_empty_first.rs
/// Test generated for harness `c13::c13_empty_first` 
///
/// Check for `assertion`: "called `Option::unwrap()` on a `None` value"

#[test]
fn kani_concrete_playback_c13_empty_first_5861734494005514276() {
    let concrete_vals: Vec<Vec<u8>> = vec![
        // 0
        vec![0, 0],
        // 0
        vec![0, 0],
        // 0
        vec![0, 0],
        // 0
        vec![0, 0],
        // 0
        vec![0, 0],
        // 0
        vec![0, 0],
        // 0
        vec![0, 0],
        // 0
        vec![0, 0],
        // 0
        vec![0, 0],
        // 0
        vec![0, 0],
        // 0
        vec![0, 0],
        // 0
        vec![0, 0],
        // 0
        vec![0, 0],
        // 0
        vec![0, 0],
        // 0
        vec![0, 0],
        // 0
        vec![0, 0],
        // 0
        vec![0, 0],
        // 0
        vec![0, 0],
        // 0
        vec![0, 0],
        // 0
        vec![0, 0],
        // 0
        vec![0, 0],
        // 0
        vec![0, 0],
        // 0
        vec![0, 0],
        // 0
        vec![0, 0],
    ];
    kani::concrete_playback_run(concrete_vals, c13_empty_first);
}
