// Counterexample found by CBMC for harness `c13_empty_later` (property C13).
// Replay: ./check C13 --replay /verif/replays/C13/c13_empty_later.rs
/// Test generated for harness `c13::c13_empty_later` 
///
/// Check for `assertion`: ""an empty sentence contributed to the statistics""

#[test]
fn kani_concrete_playback_c13_empty_later_9465979853149724512() {
    let concrete_vals: Vec<Vec<u8>> = vec![
        // 0
        vec![0, 0],
        // 0
        vec![0, 0],
        // 0
        vec![0, 0],
        // 0
        vec![0, 0],
        // 0
        vec![0, 0],
        // 0
        vec![0, 0],
        // 0
        vec![0, 0],
        // 0
        vec![0, 0],
        // 0
        vec![0, 0],
        // 0
        vec![0, 0],
        // 0
        vec![0, 0],
        // 0
        vec![0, 0],
        // 0
        vec![0, 0],
        // 0
        vec![0, 0],
        // 0
        vec![0, 0],
        // 0
        vec![0, 0],
        // 0
        vec![0, 0],
        // 0
        vec![0, 0],
        // 0
        vec![0, 0],
        // 0
        vec![0, 0],
        // 0
        vec![0, 0],
        // 0
        vec![0, 0],
        // 0
        vec![0, 0],
        // 0
        vec![0, 0],
    ];
    kani::concrete_playback_run(concrete_vals, c13_empty_later);
}
