//! Native demonstration of the C03 known finding: a supplementary-plane character is covered by
//! no char.def line (lines cannot go beyond 0xFFFF), so the property says it is DEFAULT; the code
//! gives it the entry of U+0000 instead (CharProperty::char_info falls back to chr2inf[0]), which
//! is another category as soon as a range line covers U+0000.  MeCab has the same fallback.
//! Run: copy to vibrato/tests/ of a scratch checkout and `cargo test --test native_astral_inherits_u0000`.
use vibrato::{SystemDictionaryBuilder, Tokenizer};

#[test]
fn astral_character_is_default() {
    let lex = "a,0,0,1,A\n";
    let matrix = "1 1\n0 0 0\n";
    let chardef = "DEFAULT 0 1 0\nCTRL 1 0 1\n0x0000..0x001F CTRL\n";
    let unk = "DEFAULT,0,0,10,default\nCTRL,0,0,500,ctrl\n";
    let d = SystemDictionaryBuilder::from_readers(lex.as_bytes(), matrix.as_bytes(), chardef.as_bytes(), unk.as_bytes()).unwrap();
    let t = Tokenizer::new(d);
    let mut w = t.new_worker();
    w.reset_sentence("\u{1F600}");
    w.tokenize();
    assert_eq!(w.num_tokens(), 1);
    assert_eq!(w.token(0).feature(), "default", "U+1F600 is covered by no char.def line");
}
