// Counterexample found by CBMC for harness `c04_tokenize_step` (property C04).
// Replay: ./check C04 --replay /verif/replays/C04/c04_tokenize_step.rs
/// Test generated for harness `c04::c04_tokenize_step` 
///
/// Check for `assertion`: ""tokenize() keeps entries of an earlier tokenize()""

#[test]
fn kani_concrete_playback_c04_tokenize_step_18420704206049388396() {
    let concrete_vals: Vec<Vec<u8>> = vec![
        // 0
        vec![0, 0],
        // 0
        vec![0, 0],
        // 0
        vec![0, 0],
        // 0
        vec![0, 0],
        // 0
        vec![0, 0],
        // 0
        vec![0, 0],
        // 0
        vec![0, 0],
        // 0
        vec![0, 0],
        // 0
        vec![0, 0],
        // 0
        vec![0, 0],
        // 0
        vec![0, 0],
        // 0
        vec![0, 0],
        // 0
        vec![0, 0],
        // 0
        vec![0, 0],
        // 0
        vec![0, 0],
        // 0
        vec![0, 0],
        // 0
        vec![0, 0],
        // 0
        vec![0, 0],
        // 0
        vec![0, 0],
        // 0ul
        vec![0, 0, 0, 0, 0, 0, 0, 0],
        // 0
        vec![0, 0, 0, 0],
        // 0
        vec![0, 0, 0, 0],
        // 0ul
        vec![0, 0, 0, 0, 0, 0, 0, 0],
    ];
    kani::concrete_playback_run(concrete_vals, c04_tokenize_step);
}
