#!/usr/bin/env python3
"""Regenerates MANIFEST.json from the table below (developer helper; the manifest is committed)."""
import json
CLAIMED = {
 "C01": ("bounded symbolic execution of the real tokenizer pipeline (public API: reset_sentence, tokenize) on concrete sentences over concrete dictionary structure with symbolic costs/ids/connection matrix; char-to-byte offsets and every Token accessor for symbolic Unicode code points of fixed UTF-8 widths",
         "Kani/CBMC translation and SAT solver trusted; sentences of N<=3 characters, dictionaries of <=3 words, <=3 categories, matrix connector; token list read at concrete indices through a hook, accessors verified separately; nothing outside the listed bounds is claimed"),
 "C02": ("Bellman step of search_min_node / insert_node / insert_eos from an arbitrary boundary state (inductive), whole lattices of concrete shape up to N=4 compared with a reference recurrence and with an arbitrary competing chain picked by the solver, the reported path's accumulated total_cost, and (whole pipeline) the ids and costs of an unknown token being those of its unk.def entry",
         "matrix connector instantiation; |prefix cost| < 2^28; boundary of <=4 nodes; shapes listed in the evidence"),
 "C03": ("gen_unk_words against a reference written from the statement for every category layout/invoke/group/length/max_grouping_len at concrete (n,start) up to n=4; compute_groupable; char_info lookup for every scalar; lexicon prefix search on generator-built tries with symbolic input",
         "char.def: CharProperty::from_reader is not executed symbolically (text parsing does not fold); instead the table it builds natively at check time for one 11-line char.def is checked by the solver against the lines of the file for every Unicode scalar (last covering line wins, inclusive bounds, DEFAULT otherwise); known finding: supplementary-plane characters take U+0000's entry"),
 "C04": ("concrete operation histories (tokenize twice, long-then-short, short-then-long, empty between, reset twice) on one worker vs a fresh worker with symbolic costs; inductive steps for Lattice::reset, Worker::reset_sentence and tokenize from arbitrary prior state",
         "schedules (threads) are not explored: Kani does not model concurrency; Send+Sync of Tokenizer/Dictionary is a compile-time bound in the harness crate, trusted not explored"),
 "C05": ("Dictionary::write into an element-wise writer then Dictionary::read of those bytes, for dictionaries of concrete structure (matrix / matrix+user+mapper / raw connector; dual in the thorough tier) with symbolic numeric contents: reported byte count = bytes emitted, and every field read back (word and unknown parameters, matrix cells, character infos, mapper vectors, 8-lane feature rows, scorer arrays, trie bytes, postings) equals the field written",
         "bounded to 2-3 words, 2x2 ids, 3-entry character table, all strings empty (UTF-8 validation of non-empty heap strings does not fold under Kani); a second write of the reloaded value, tokenization equivalence after reload and AVX2 interchange are outside the claim; stubs: unty::type_equal (type-name comparison), alloc::fmt::format; reader/writer are element-wise instantiations of the generic Read/Write parameters"),
 "C06": ("ConnIdMapper::from_iter accepts exactly permutation pairs for all u16 vectors; matrix connector and whole-dictionary mapping keep cost(map r,map l)=cost(r,l) and map every entry consistently; malformed / wrong-length mappings give Err; tokenization before/after mapping agrees on a 2-character sentence; raw and dual connector mapping incl. ids sharing a matrix class",
         "dictionary-level instances use the matrix connector; two successive mappings compose (retained mapper); a user lexicon loaded from CSV after a mapping is covered under C08; write/read round trip with a mapper under C05"),
 "C07": ("XOR double-array lookup (retrieve_cost) against its definition for arbitrary arrays and every 31-bit key, 8-lane accumulation, RawConnector::cost and DualConnector::cost arithmetic on parts-built connectors with symbolic feature rows / class maps / matrix cells; raw and dual connectors built natively from one concrete bigram model checked against the defining sums for every id pair",
         "construction from bigram.right/left/cost text (from_readers, template split, interning) is not executed symbolically (hashbrown maps and text parsing do not fold): it runs natively at check time on one concrete 12-template model with ragged rows and BOS/EOS entries and the solver checks cost() of the resulting raw and dual connectors for every id pair against the defining sums computed by an independent reference; ScorerBuilder::build on concrete key sets is attempted in the thorough tier (BTreeMap iteration does not fold: non-core); AVX2 path not modelled by Kani"),
 "C08": ("system {a} + user {ab} vs system {a,ab} with shared symbolic parameters: same optimal cost, same candidate counts, the user word offered as a user-lexicon candidate with the same prefix minimum, system words still available; reset_user_lexicon_from_reader(None) removes every user candidate; on an id-mapped dictionary the real reset_user_lexicon_from_reader/parse_csv translate the first, the replacing and the reloaded-after-clear user lexicon with the retained mapping (concrete one-row CSVs, symbolic mapping)",
         "the double-array builder behind Lexicon::from_entries does not fold under CBMC: in the CSV instances it is stubbed by a trie the current code built natively for the same surface; CSV rows are concrete (parse_csv folds on concrete rows only); id verification for arbitrary ids is covered under C10 (c10_verify_ids); through the CSV path it is checked for rows with the left / the right id exactly at the connector's bound"),
 "C09": ("any 21-byte header different from the current magic followed by a valid body is rejected (all header bytes symbolic; also with only the 4 version bytes or only the terminator byte symbolic, which stay decidable when header handling grows; also through a reader whose read() hands out one byte per call); the complete image loads; hand-written decoders on symbolic bytes: U31 and U31x8 reject exactly the out-of-range lanes and every truncated input, the Scorer decoder rejects inconsistent array lengths; every cut point inside the header and inside the trie byte array of a whole image (symbolic cut point per 16-byte window); thorough tier: every strict prefix of a Scorer image with symbolic contents",
         "images of 340-700 bytes with empty strings; cut points that fall inside a scalar or length field of the bincode body are NOT decided (the symbolic read outcome is merged into the decoded value and nothing downstream folds; two such windows stay registered as non-core to document the no-verdict) - there the claim rests on the decoders propagating read errors, checked at codec level (U31, U31x8, Scorer truncation); reader = element-wise CutReader instantiation of the generic Read parameter; stubs: unty::type_equal, alloc::fmt::format"),
 "C10": ("numeric/packing kernels: CharInfo::new bit packing for all inputs; matrix index arithmetic; Lexicon/UnkHandler::verify accept exactly in-range ids; composing two arbitrary valid mappings of a non-square connector stays in range and is 'first, then second' (mapping validation itself: see C06); accepted-dictionary-implies-safe-use through the C01 pipeline instances",
         "totality over arbitrary file bytes is not decided (parsers over >5 arbitrary bytes are out of reach); listed in DESIGN"),
 "C12": ("pairs of re-spaced sentences tokenized in one query by two workers of one tokenizer with symbolic costs: same tokens, ids, total costs; ignore_space rejected without SPACE category",
         "sentences of N<=4, dictionaries meeting the stated precondition, matrix connector"),
 "C13": ("per-id counts after the real pipeline equal an independent recount of connection-cost evaluations over the lattice; empty sentences contribute nothing; repeated sentences add the same; a shorter sentence after a longer one adds only its own lattice; ignore_space with a trailing and with an inner gap; compute_probs lists ids 1.. once, frequency-ordered, accepted by ConnIdMapper::from_iter",
         "counts up to 7 per id, 3-4 ids per side, N<=2 sentences; f64 division executed symbolically by CBMC's float model"),
}
NA = {
 "C11": "parse_csv folds only on fully concrete rows (6 s with csv-core in NFA mode and 5000-element field sensitivity); with symbolic content bytes csv-core's state machine becomes symbolic at every byte and an 11-byte row gave no verdict in 12 minutes (attempt kept in kani/c11_attempt.rs.txt). A concrete-row run decides nothing a unit test does not.",
 "C14": "values come from rucrf L-BFGS training (f64 loops to convergence); no bounded encoding of a trained model is within reach",
 "C15": "needs a trained model and decoding of an image that embeds a 65536-entry table; not constructible/decodable inside the solver",
 "C16": "relates two text emissions of a trained model through f64 scaling and from_readers text parsing; out of reach (see C14, C07)",
 "C17": "attempted in this round (kani/c17_attempt.rs.txt): with regex::Regex replaced by a hand-written matcher behind a cargo feature (the repository's own rewriter tests pass with it) add_rule/rewrite compile under Kani, but the trie is a Vec<Node{Vec<Action>}> whose Action enum carries String and HashSet<String>: once the actions have been pushed (realloc/memcpy) CBMC no longer sees the enum discriminants as constants, so every pattern test in rewrite() also explores the HashSet arm (hashbrown probing over unconstrained memory, never finishes unwinding); even one concrete rule with a symbolic 2-feature input gave no verdict in 600 s, 2-3 symbolic rules none in 1200-1800 s. The hook commit was dropped again. The defect named in the property statement (rules '*,x' 'a,y' '*,y' rewrite (a,y) with the third rule) was confirmed natively in a scratch checkout, as was a 7-line repair (share only the most recently added edge; suite green) - neither is committed because no check of this family decides C17.",
 "C18": "FeatureExtractor::new parses templates with three Regexes (as C17) and the second half concerns ids produced by CRF training (C14)",
 "C19": "BufReader/BufWriter + core::fmt code whose loop counts grow with input; below one record is decidable (parse_csv probe), and the second half concerns a CLI's stdout",
 "C20": "regex-driven line parsing with f64 parse (as C17/C19)",
}
def main():
    m = json.load(open("/verif/MANIFEST.json"))
    checks = []
    for pid, (text, note) in sorted(CLAIMED.items()):
        checks.append({
            "property_id": pid,
            "quick_cmd": f"./check {pid} --tier quick",
            "thorough_cmd": f"./check {pid} --tier thorough",
            "evidence_file": f"evidence/{pid}.json",
            "replay_cmd_template": f"./check {pid} --replay {{path}}",
            "engine": "kani-cbmc",
            "level_claimed": {"category": "model_checking", "text": text, "design_ref": f"DESIGN.md section 3, {pid}"},
            "level_note": note,
            "technique": "bounded model checking of the compiled Rust code (Kani -> CBMC, SAT/CaDiCaL), symbolic values in concrete structure",
        })
    m["checks"] = checks
    m["engines"][0]["serves_properties"] = sorted(CLAIMED)
    m["not_applicable"] = [{"property_id": k, "reason": v} for k, v in sorted(NA.items())]
    json.dump(m, open("/verif/MANIFEST.json", "w"), indent=1)
if __name__ == "__main__":
    main()
