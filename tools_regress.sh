#!/bin/bash
# Developer helper: re-run the full quick tier of each seeded change's property against its scratch
# worktree (/tmp/mut/<id>, change applied) and record which harnesses report it.
# usage: tools_regress.sh [id ...]   (default: all ids under /verif/seeded)
cd /verif
ids="$@"; [ -z "$ids" ] && ids=$(ls seeded)
for id in $ids; do
  prop=$(python3 -c "import json;print(json.load(open('/verif/seeded/$id/meta.json'))['property'])")
  [ -d /tmp/mut/$id ] || { echo "$id: no worktree"; continue; }
  log=/tmp/regress_$id.log
  VERIF_REPO=/tmp/mut/$id ./check $prop --tier quick --no-evidence --no-playback > $log 2>&1; rc=$?
  python3 - "$id" "$rc" "$log" <<'PY'
import json,re,sys
i,rc,log=sys.argv[1],int(sys.argv[2]),sys.argv[3]
txt=open(log,errors='replace').read()
viol=sorted(set(re.findall(r'^\[candidate\] (\w+):',txt,re.M)))
nov=sorted(set(re.findall(r'^\[NO VERDICT, core\] (\w+):',txt,re.M)))
p=f'/verif/seeded/{i}/meta.json'; m=json.load(open(p))
m['final_quick_run']={'exit':rc,'reported_by':viol,'core_no_verdict':nov}
json.dump(m,open(p,'w'),indent=1)
print(i,'exit',rc,'reported_by',viol,'noverdict',nov)
PY
done
