#!/bin/sh
# Offline setup: warm the Kani build of vibrato's dependencies so that checks only re-translate
# vibrato and the harness crate.  Nothing is fetched.
set -e
cd "$(dirname "$0")"
export CARGO_NET_OFFLINE=true
mkdir -p .work evidence
cp /repo/Cargo.lock kani/Cargo.lock
[ -d gen ] && cp /repo/Cargo.lock gen/Cargo.lock || true
command -v cargo-kani >/dev/null || { echo "cargo-kani missing"; exit 1; }
command -v cbmc >/dev/null || { echo "cbmc missing"; exit 1; }
echo "setup ok"
