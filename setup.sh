#!/bin/sh
# Offline setup: checks the tools and warms the Kani build of vibrato's dependencies so that each
# check only re-translates vibrato and the harness crate.  Nothing is fetched.
set -e
cd "$(dirname "$0")"
export CARGO_NET_OFFLINE=true
mkdir -p .work evidence
command -v cargo-kani >/dev/null || { echo "cargo-kani missing"; exit 1; }
command -v cbmc >/dev/null || { echo "cbmc missing"; exit 1; }
command -v goto-instrument >/dev/null || { echo "goto-instrument missing"; exit 1; }
./check --warm
echo "setup ok"
