//! Native generator: builds the small crawdad tries / postings with the *current* vibrato
//! code (`Lexicon::from_entries`, i.e. the real `WordMapBuilder` and crawdad builder) and writes
//! them as Rust constants that the Kani harness crate includes.  Constructing a double-array
//! trie inside CBMC is out of reach; deserialising ~100 concrete bytes is not.
use std::fmt::Write as _;
use std::io::Write as _;

use vibrato::verif_hooks::*;

fn lex(surfaces: &[&str], lex_type: LexType) -> Lexicon {
    let entries: Vec<RawWordEntry> = surfaces
        .iter()
        .enumerate()
        .map(|(i, s)| RawWordEntry {
            surface: s.to_string(),
            param: WordParam::new(0, 0, i as i16),
            feature: "",
        })
        .collect();
    Lexicon::from_entries(&entries, lex_type).unwrap()
}

fn emit_lex(out: &mut String, name: &str, surfaces: &[&str]) {
    let l = lex(surfaces, LexType::System);
    let tb = l.verif_trie_bytes();
    let post = l.verif_postings();
    writeln!(out, "/// surfaces (row order): {:?}", surfaces).unwrap();
    writeln!(out, "pub const {}_TRIE: [u8; {}] = {:?};", name, tb.len(), tb).unwrap();
    writeln!(out, "pub const {}_POST: [u32; {}] = {:?};", name, post.len(), post).unwrap();
    writeln!(out, "pub const {}_NWORDS: usize = {};", name, surfaces.len()).unwrap();
    // for every word id, (surface as code points)
    let sv: Vec<Vec<u32>> = surfaces.iter().map(|s| s.chars().map(|c| c as u32).collect()).collect();
    let maxlen = sv.iter().map(|v| v.len()).max().unwrap_or(0);
    write!(out, "pub const {}_SURF: [&[u32]; {}] = [", name, sv.len()).unwrap();
    for v in &sv {
        write!(out, "&{:?}, ", v).unwrap();
    }
    writeln!(out, "];").unwrap();
    writeln!(out, "pub const {}_MAXLEN: usize = {};", name, maxlen).unwrap();
}

fn u31(x: u32) -> U31 {
    U31::new(x).unwrap()
}

/// All strings in these images are empty: `str::from_utf8` on a non-empty heap buffer does not
/// fold under Kani (its `align_offset` model is nondeterministic), and string contents play no
/// role in truncation / magic handling.
fn small_dict(kind: u8, with_user: bool, with_mapper: bool) -> vibrato::Dictionary {
    let a = "\u{1}";
    let ab = "\u{1}\u{2}";
    let entries = vec![
        RawWordEntry { surface: a.to_string(), param: WordParam::new(1, 1, 10), feature: "" },
        RawWordEntry { surface: ab.to_string(), param: WordParam::new(1, 0, -7), feature: "" },
    ];
    let sys = Lexicon::from_entries(&entries, LexType::System).unwrap();
    let user = if with_user {
        let ue = vec![RawWordEntry { surface: "\u{2}".to_string(), param: WordParam::new(0, 1, 3), feature: "" }];
        Some(Lexicon::from_entries(&ue, LexType::User).unwrap())
    } else {
        None
    };
    let inv = INVALID_FEATURE_ID;
    let row = |xs: [u32; 2]| U31x8::verif_from_array([u31(xs[0]), u31(xs[1]), inv, inv, inv, inv, inv, inv]);
    let zero = U31x8::verif_from_array([u31(0), u31(0), inv, inv, inv, inv, inv, inv]);
    let scorer = || {
        let mut b = ScorerBuilder::new();
        b.insert(u31(1), u31(1), 5);
        b.insert(u31(1), u31(2), -3);
        b.insert(u31(2), u31(1), 9);
        b.insert(u31(0), u31(2), 4);
        b.build()
    };
    let conn = match kind {
        0 => ConnectorWrapper::Matrix(MatrixConnector::new(vec![0, 1, 2, 3], 2, 2)),
        1 => ConnectorWrapper::Raw(RawConnector::new(vec![zero, row([1, 2])], vec![zero, row([2, 1])], 1, scorer())),
        _ => ConnectorWrapper::Dual(DualConnector::verif_from_parts(
            MatrixConnector::new(vec![0, 1, 2, 3], 2, 2),
            vec![0, 1],
            vec![0, 1],
            vec![zero, row([1, 2])],
            vec![zero, row([2, 1])],
            scorer(),
        )),
    };
    let mapper = if with_mapper { Some(ConnIdMapper::from_iter([1u16], [1u16]).unwrap()) } else { None };
    let table = vec![
        CharInfo::new(1, 0, false, true, 0).unwrap(),
        CharInfo::new(2, 1, true, false, 2).unwrap(),
        CharInfo::new(2, 1, true, false, 2).unwrap(),
    ];
    let prop = CharProperty::verif_from_parts(table, vec![String::new(), String::new()]);
    let unk = UnkHandler::verif_from_parts(
        vec![0, 1, 2],
        vec![
            UnkEntry { cate_id: 0, left_id: 0, right_id: 1, word_cost: 100, feature: String::new() },
            UnkEntry { cate_id: 1, left_id: 1, right_id: 1, word_cost: 50, feature: String::new() },
        ],
    );
    vibrato::Dictionary::verif_from_parts(sys, user, conn, mapper, prop, unk)
}

/// char.def used by the C03 table harness; the oracle in kani/src/c03.rs spells out the same lines.
const CHARDEF_TEXT: &str = "DEFAULT 0 1 0
SPACE 0 1 0
ALPHA 1 1 0
KANJI 0 0 2
EDGE 1 0 3
0x0020 SPACE
0x0041..0x005A ALPHA
0x0050..0x0052 KANJI ALPHA
0x4E00..0x9FFF KANJI
0x9FFF ALPHA
0xFFFE..0xFFFF EDGE
";

/// The table the *current* `CharProperty::from_reader` builds for CHARDEF_TEXT (all entries), and
/// the head of the table for the same file with one more line covering U+0000.
fn emit_chardef(out: &mut String) {
    let prop = CharProperty::from_reader(CHARDEF_TEXT.as_bytes()).unwrap();
    let raw: Vec<u32> = prop.verif_chr2inf().iter().map(|c| c.verif_raw()).collect();
    writeln!(out, "/// char.def of the C03 table harness").unwrap();
    writeln!(out, "pub const CHARDEF_TEXT: &str = {:?};", CHARDEF_TEXT).unwrap();
    writeln!(out, "/// raw CharInfo table built by the current CharProperty::from_reader from CHARDEF_TEXT").unwrap();
    writeln!(out, "pub static CHARDEF_TABLE: [u32; {}] = {:?};", raw.len(), raw).unwrap();
    let names: Vec<String> = prop.verif_categories().to_vec();
    writeln!(out, "pub const CHARDEF_CATEGORIES: [&str; {}] = {:?};", names.len(), names).unwrap();
    let text0 = format!("{CHARDEF_TEXT}0x0000 ALPHA\n");
    let prop0 = CharProperty::from_reader(text0.as_bytes()).unwrap();
    let head: Vec<u32> = prop0.verif_chr2inf().iter().take(4).map(|c| c.verif_raw()).collect();
    writeln!(out, "/// first 4 entries of the table for CHARDEF_TEXT + \"0x0000 ALPHA\"").unwrap();
    writeln!(out, "pub const CHARDEF0_HEAD: [u32; 4] = {:?};", head).unwrap();
}

/// A 12-template bigram model with ragged rows and BOS/EOS entries, used by the C07 harnesses
/// `c07_built_*`: the connectors are built natively by the *current* builders, the expected costs
/// by the independent reference below (the defining feature-pair sum read off the three texts).
const BIGRAM_RIGHT: &str = "1\tA,B,C,D,E,F,G,H,I,J,K,L\n2\tA,B\n3\tA,X,C,D,E,F,G,H,I,J,K,Y\n";
const BIGRAM_LEFT: &str = "1\ta,b,c,d,e,f,g,h,i,j,k,l\n2\ta,b,c\n3\tq,b,c,d,e,f,g,h,i,j,k,z\n";
// 12 templates, 8 of which become raw lanes: at least two of the positions 2..11 - where the
// ragged rows have no feature - stay in the dual connector's matrix part whatever the (hash-order
// dependent) split is, and every such position has a BOS (`/x`) and an EOS (`X/`) entry.
const BIGRAM_COST: &str = "A/a\t3\nB/b\t5\nC/c\t-7\nJ/j\t11\nY/z\t13\nX/b\t17\nI/i\t19\nA/q\t23\nD/d\t-29\nL/l\t31\n\
/a\t100\n/c\t200\n/d\t300\n/e\t400\n/f\t500\n/g\t600\n/h\t700\n/i\t800\n/j\t900\n/k\t1000\n/l\t1100\n/z\t1200\n/q\t1300\n\
C/\t1000\nD/\t1100\nE/\t1200\nF/\t1300\nG/\t1400\nH/\t1500\nI/\t1600\nJ/\t1700\nK/\t1800\nL/\t1900\nY/\t2000\nB/\t2100\n";

fn bigram_reference() -> Vec<Vec<i32>> {
    use std::collections::HashMap;
    let rows = |text: &str| -> Vec<Vec<String>> {
        let mut v = vec![vec![]]; // index 0 = BOS/EOS, filled below
        for line in text.lines() {
            let (_, feats) = line.split_once('\t').unwrap();
            v.push(feats.split(',').map(|x| x.to_string()).collect());
        }
        v
    };
    let (mut r, mut l) = (rows(BIGRAM_RIGHT), rows(BIGRAM_LEFT));
    let t = r.iter().chain(l.iter()).map(|x| x.len()).max().unwrap();
    r[0] = vec![String::new(); t];
    l[0] = vec![String::new(); t];
    let mut cost: HashMap<(String, String), i32> = HashMap::new();
    for line in BIGRAM_COST.lines() {
        let (pair, c) = line.split_once('\t').unwrap();
        let (a, b) = pair.split_once('/').unwrap();
        cost.insert((a.to_string(), b.to_string()), c.parse().unwrap());
    }
    let mut want = vec![vec![0i32; l.len()]; r.len()];
    for (i, rr) in r.iter().enumerate() {
        for (j, ll) in l.iter().enumerate() {
            let mut abs = 0;
            for k in 0..t {
                if let (Some(a), Some(b)) = (rr.get(k), ll.get(k)) {
                    if let Some(c) = cost.get(&(a.clone(), b.clone())) {
                        want[i][j] += *c;
                        abs += c.abs();
                    }
                }
            }
            // precondition of the property for the dual connector: the pre-summed part (any
            // subset of the positions) fits in 16 bits
            assert!(abs <= i16::MAX as i32, "model violates the 16-bit precondition of the dual connector");
        }
    }
    want
}

fn rows8(v: &[U31x8]) -> Vec<[u32; 8]> {
    v.iter().map(|b| b.verif_to_array().map(|x| x.get())).collect()
}

fn emit_bigram(out: &mut String) {
    let want = bigram_reference();
    writeln!(out, "/// bigram model of the c07_built_* harnesses (right / left / cost)").unwrap();
    writeln!(out, "pub const BIGRAM_TEXT: [&str; 3] = [{:?}, {:?}, {:?}];", BIGRAM_RIGHT, BIGRAM_LEFT, BIGRAM_COST).unwrap();
    writeln!(out, "/// defining feature-pair sums [right id][left id], computed by the generator's own reference").unwrap();
    writeln!(out, "pub const BIGRAM_WANT: [[i32; {}]; {}] = {:?};", want[0].len(), want.len(), want).unwrap();
    // dual connector built by the current builder
    let d = DualConnector::from_readers(BIGRAM_RIGHT.as_bytes(), BIGRAM_LEFT.as_bytes(), BIGRAM_COST.as_bytes()).unwrap();
    let m = d.verif_matrix_connector();
    let arr = |out: &mut String, name: &str, ty: &str, v: String, n: usize| {
        writeln!(out, "pub const {name}: [{ty}; {n}] = {v};").unwrap();
    };
    let md = m.verif_data().to_vec();
    arr(out, "DUAL_M_DATA", "i16", format!("{:?}", md), md.len());
    writeln!(out, "pub const DUAL_M_NR: usize = {};\npub const DUAL_M_NL: usize = {};", m.num_right(), m.num_left()).unwrap();
    let (rm, lm) = (d.verif_right_conn_id_map().to_vec(), d.verif_left_conn_id_map().to_vec());
    arr(out, "DUAL_RMAP", "u16", format!("{:?}", rm), rm.len());
    arr(out, "DUAL_LMAP", "u16", format!("{:?}", lm), lm.len());
    let (rr, lr) = (rows8(d.verif_right_feat_ids()), rows8(d.verif_left_feat_ids()));
    arr(out, "DUAL_RROWS", "[u32; 8]", format!("{:?}", rr), rr.len());
    arr(out, "DUAL_LROWS", "[u32; 8]", format!("{:?}", lr), lr.len());
    let sc = d.verif_raw_scorer();
    let (b, ch, co) = (sc.verif_bases().to_vec(), sc.verif_checks().to_vec(), sc.verif_costs().to_vec());
    assert!(b.len() < 120 && ch.len() < 120 && md.len() < 120, "model too large for the harness bounds");
    arr(out, "DUAL_BASES", "u32", format!("{:?}", b), b.len());
    arr(out, "DUAL_CHECKS", "u32", format!("{:?}", ch), ch.len());
    arr(out, "DUAL_COSTS", "i32", format!("{:?}", co), co.len());
    // raw connector built by the current builder
    let r = RawConnector::from_readers(BIGRAM_RIGHT.as_bytes(), BIGRAM_LEFT.as_bytes(), BIGRAM_COST.as_bytes()).unwrap();
    let (rr, lr) = (rows8(r.verif_right_feat_ids()), rows8(r.verif_left_feat_ids()));
    arr(out, "RAW_RROWS", "[u32; 8]", format!("{:?}", rr), rr.len());
    arr(out, "RAW_LROWS", "[u32; 8]", format!("{:?}", lr), lr.len());
    writeln!(out, "pub const RAW_T: usize = {};", r.verif_feat_template_size()).unwrap();
    let sc = r.verif_scorer();
    let (b, ch, co) = (sc.verif_bases().to_vec(), sc.verif_checks().to_vec(), sc.verif_costs().to_vec());
    assert!(b.len() < 120 && ch.len() < 120, "model too large for the harness bounds");
    arr(out, "RAW_BASES", "u32", format!("{:?}", b), b.len());
    arr(out, "RAW_CHECKS", "u32", format!("{:?}", ch), ch.len());
    arr(out, "RAW_COSTS", "i32", format!("{:?}", co), co.len());
    // sanity on the native side too (this is an ordinary test; the solver repeats it for all ids at once)
}

fn emit_images(out: &mut String) {
    for (name, kind, user, mapper) in [
        ("IMG_MATRIX", 0u8, false, false),
        ("IMG_MATRIX_USER_MAPPED", 0u8, true, true),
        ("IMG_RAW", 1u8, false, false),
        ("IMG_DUAL", 2u8, true, false),
    ] {
        let d = small_dict(kind, user, mapper);
        let mut buf = vec![];
        let n = d.write(&mut buf).unwrap();
        assert_eq!(n, buf.len());
        // sanity: the current code reads its own image back
        vibrato::Dictionary::read(&buf[..]).unwrap();
        writeln!(out, "/// dictionary image written by the current Dictionary::write (connector kind {kind}, user lexicon {user}, mapper {mapper})").unwrap();
        writeln!(out, "pub const {}: [u8; {}] = {:?};", name, buf.len(), buf).unwrap();
    }
}

fn main() {
    let dir = std::env::args().nth(1).expect("output dir");
    let mut out = String::new();
    writeln!(out, "// generated by /verif/gen from the current /repo tree; do not edit").unwrap();
    // letters: a = U+0001, b = U+0002 (kept tiny so that crawdad's code table has <= 3 entries)
    let a = "\u{1}";
    let b = "\u{2}";
    let ab = "\u{1}\u{2}";
    let aa = "\u{1}\u{1}";
    let ba = "\u{2}\u{1}";
    let aab = "\u{1}\u{1}\u{2}";
    let aba = "\u{1}\u{2}\u{1}";
    emit_lex(&mut out, "LEX_A", &[a]);
    emit_lex(&mut out, "LEX_A_AB", &[a, ab]);
    emit_lex(&mut out, "LEX_A_B_AB", &[a, b, ab]);
    emit_lex(&mut out, "LEX_AB", &[ab]);
    emit_lex(&mut out, "LEX_B", &[b]);
    emit_lex(&mut out, "LEX_B_AB", &[b, ab]);
    emit_lex(&mut out, "LEX_AB_AB", &[ab, ab]);
    emit_lex(&mut out, "LEX_A_AB_AB", &[a, ab, ab]);
    // homographs: two rows share a surface
    emit_lex(&mut out, "LEX_A_A_AB", &[a, a, ab]);
    emit_lex(&mut out, "LEX_AB_A_AB", &[ab, a, ab]);
    // all surfaces over {a,b} up to length 2 / a deeper one
    emit_lex(&mut out, "LEX_FULL2", &[a, b, aa, ab, ba, "\u{2}\u{2}"]);
    emit_lex(&mut out, "LEX_DEEP", &[a, aa, aab, aba, b]);
    emit_images(&mut out);
    emit_chardef(&mut out);
    emit_bigram(&mut out);
    let mut f = std::fs::File::create(format!("{dir}/gen.rs")).unwrap();
    f.write_all(out.as_bytes()).unwrap();
}
