#!/bin/sh
# usage: tools_prep.sh <target-dir> <harness-short-name> <out.goto>   (developer helper)
T=$1; H=$2; G=$3
META=$(ls $T/kani/x86_64-unknown-linux-gnu/debug/build/vibrato-verif/*/out/*.kani-metadata.json | head -1)
M=$(python3 -c "
import json,sys
m=json.load(open('$META'))
print([h['mangled_name'] for h in m['proof_harnesses'] if h['pretty_name'].split('::')[-1]=='$H'][0])")
F=$(python3 -c "
import json,sys
m=json.load(open('$META'))
print([h['goto_file'] for h in m['proof_harnesses'] if h['pretty_name'].split('::')[-1]=='$H'][0].replace('.symtab.out','.out'))")
goto-cc $F --function $M -o $G && goto-instrument --add-library --no-malloc-may-fail $G $G >/dev/null 2>&1 && goto-instrument --generate-function-body-options assert-false-assume-false --generate-function-body '.*' --drop-unused-functions $G $G >/dev/null 2>&1 && goto-instrument --ensure-one-backedge-per-target $G $G > /dev/null 2>&1
echo prepared $G
